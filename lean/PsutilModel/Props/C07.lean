/-
  Props/C07.lean — property theorems for C07 (CPU times and CPU percentages are exact shares
  of elapsed time). Only statements the property makes; helper lemmas live in Proofs/C07*.lean.

  `cfg` is built from Generated/C07.lean, which the translator rewrites from /repo's source on
  every run; `cfg_good` is the proof obligation that breaks when a subtraction list, the field
  order, a slice bound, the clipping of negative deltas, a factor, a rounding digit, the clamp or
  the use of the four `_last_*` dictionaries changes. The `max(1, all_delta)` guard is *not* part
  of `Good`: the theorems about it are stated for both values of `tpMaxOne`; the value the code
  has NOW is pinned by its own obligation `cfg_tp_max_one` (round 3), which closes the finding:
  `C07_tp_sum_code : ¬ C07_tp_sum_Full cfg`. Further obligations of round 3 (section I):
  `cfg_blocking_order`, `cfg_clock_and_timer`, `cfg_proc_shape`.
-/
import PsutilModel.Proofs.C07Parse
import PsutilModel.Proofs.C07Hist
import PsutilModel.Proofs.C07Proc
import PsutilModel.Proofs.C07Ext
import PsutilModel.Proofs.C07Store
import PsutilModel.Model.C07Gen
namespace Psutil.C07
open Spec

theorem cfg_good : cfg.Good := by constructor <;> decide

/-! ## A. `cpu_times()` / `cpu_times(percpu=True)` -/

/-- **C07_fields_kernel_order.** Whatever the first line looked like at start-up, the exposed
    fields are the first 7–10 kernel columns, in kernel order. -/
theorem C07_fields_kernel_order (vlen : Nat) :
    fieldsFor cfg vlen = kernelOrder.take (nfOf vlen) ∧ 7 ≤ nfOf vlen ∧ nfOf vlen ≤ 10 := by
  refine ⟨fieldsFor_eq cfg cfg_good vlen, ?_, ?_⟩ <;>
    rcases nfOf_cases vlen with h | h | h | h <;> omega

/-- **C07_times_exact.** For every kernel state (any counters, any number of CPUs, any other
    lines), any `USER_HZ > 0`, and any kernel that prints at least the columns psutil exposes:
    `cpu_times()` is exactly `ticks / USER_HZ` of the aggregate line, column by column. -/
theorem C07_times_exact (tck : Nat) (htck : 0 < tck) (vlen ncols : Nat) (hcols : nfOf vlen ≤ ncols)
    (w : ProcStat) (ho : ∀ l ∈ w.other, 10 ∉ l) :
    cpuTimes cfg (fieldsFor cfg vlen).length tck (renderProcStat ncols w)
      = .ok (seconds tck (nfOf vlen) w.total) := by
  have hg := cfg_good
  have h10 : nfOf vlen ≤ 10 := (C07_fields_kernel_order vlen).2.2
  rw [fieldsFor_length cfg hg]
  unfold cpuTimes firstLine renderProcStat
  rw [linesOf_unlines _ (statLines_no_newline ncols w ho)]
  simp only [statLines, List.headD_cons, splitWs_totalLine, hg.sliceFrom, hg.sliceExtra]
  exact parseCpuValues_render cfg hg tck htck _ ncols h10 hcols _ _

/-- **C07_per_cpu_times_exact.** `cpu_times(percpu=True)` lists every CPU of the kernel state,
    in kernel order, each exactly `ticks / USER_HZ`; the aggregate line and the non-`cpu` lines
    are not mistaken for CPUs. -/
theorem C07_per_cpu_times_exact (tck : Nat) (htck : 0 < tck) (vlen ncols : Nat)
    (hcols : nfOf vlen ≤ ncols) (w : ProcStat) (ho : ∀ l ∈ w.other, 10 ∉ l)
    (hp : ∀ l ∈ w.other, startsWith [99, 112, 117] l = false) :
    perCpuTimes cfg (fieldsFor cfg vlen).length tck (renderProcStat ncols w)
      = .ok (w.cpus.map (seconds tck (nfOf vlen))) := by
  have hg := cfg_good
  have h10 : nfOf vlen ≤ 10 := (C07_fields_kernel_order vlen).2.2
  rw [fieldsFor_length cfg hg]
  unfold perCpuTimes renderProcStat
  rw [linesOf_unlines _ (statLines_no_newline ncols w ho)]
  simp only [statLines, List.drop_succ_cons, List.drop_zero]
  exact parseCpuLines_render cfg hg tck htck _ ncols h10 hcols w.other hp w.cpus 0

/-- a parsed sample is the exposed part of the kernel record in seconds — so every theorem
    below, stated for arbitrary `Times`, applies to what `cpu_times()` returns -/
theorem C07_seconds_expose (tck nf : Nat) (t : Ticks) :
    seconds tck nf t = (Times.ofTicks tck t).expose nf := by
  simp [seconds, Times.expose, Times.ofTicks, Times.cols, Ticks.cols, List.map_take]

/-! ### the token grammar behind `C07_times_exact`

`C07_times_exact` quantifies over kernel states and lets the renderer print them. The only
assumption about the *text* a kernel produces is therefore the renderer's: every counter is
printed as `%llu`. `isKernelTok` states that grammar on its own (non-empty ASCII decimal digits, no
leading zero except `0`), so that it can be checked against the live `/proc/stat` on every run;
strings `float()` also accepts but no kernel prints (`1e3`, `+5`, `1_0`, `nan`, `inf`, ` 7`) are
outside the grammar and outside the claim. -/

/-- **C07_token_grammar.** Every counter token of every rendered `cpu` line is in the grammar. -/
theorem C07_token_grammar (ncols i : Nat) (t : Ticks) :
    (∀ tok ∈ (splitWs (renderTotalLine ncols t)).drop 1, isKernelTok tok = true) ∧
    (∀ tok ∈ (splitWs (renderCpuLine ncols i t)).drop 1, isKernelTok tok = true) := by
  rw [splitWs_totalLine, splitWs_cpuLine]
  simp only [List.drop_succ_cons, List.drop_zero, List.mem_map]
  constructor <;>
  · rintro tok ⟨n, _, rfl⟩
    exact renderDec_kernelTok n

/-- **C07_grammar_exact.** The grammar is EXACTLY the set of strings the renderer prints for a
    counter: a token is in it iff it is the `%llu` rendering of some number. Hence a live
    `/proc/stat` whose tokens pass the grammar check is the rendering of a kernel state, which is
    what `C07_times_exact` quantifies over. -/
theorem C07_grammar_exact (tok : Bytes) : isKernelTok tok = true ↔ ∃ n : Nat, tok = renderDec n := by
  constructor
  · exact kernelTok_is_render tok
  · rintro ⟨n, rfl⟩
    exact renderDec_kernelTok n

/-- **C07_grammar_tokens_parse.** On the grammar the parser is total and exact: each token is
    read as its decimal value divided by `USER_HZ` (never ValueError). -/
theorem C07_grammar_tokens_parse (tck : Nat) (htck : 0 < tck) (tok : Bytes) (h : isKernelTok tok = true) :
    ∃ n : Nat, parseDec? tok = some n ∧ parseFloatTok cfg tck tok = .ok ((n : Rat) / (tck : Rat)) := by
  obtain ⟨n, hn⟩ := kernelTok_parses tok h
  refine ⟨n, hn, ?_⟩
  have h0 : tck ≠ 0 := by omega
  simp [parseFloatTok, hn, cfg_good.divTicks, h0]

/-! ## B. `cpu_percent()` -/

/-- **C07_percent_formula.** Between any two samples (any rationals, any of the four field
    sets), `calculate()` returns `round1(100·busy/total)` — busy = user+nice+system+irq+softirq
    (+steal), total = busy+idle+iowait, each counter's advance clipped at 0 — and 0.0 when
    nothing elapsed. -/
theorem C07_percent_formula (vlen : Nat) (o n : Times) :
    calcPercent cfg (fieldsFor cfg vlen) (o.expose (nfOf vlen)) (n.expose (nfOf vlen))
      = .ok (percent (nfOf vlen) o n) := by
  rw [fieldsFor_eq cfg cfg_good]
  exact calcPercent_eq cfg cfg_good _ (nfOf_cases vlen) o n

/-- the value of `percent` when time elapsed, spelled out -/
theorem C07_percent_value (nf : Nat) (o n : Times) (h : total nf o n ≠ 0) :
    percent nf o n = round1 (100 * busy nf o n / total nf o n) := by
  simp [percent, percentExact, h]

/-- `round1` really is rounding to one decimal (nearest, ties to even) -/
theorem C07_round1_is_rounding (x : Rat) : IsRound1 x (round1 x) := roundN_one_isRound1 x

/-- **C07_percent_range.** The result is within [0, 100] for every pair of samples. -/
theorem C07_percent_range (nf : Nat) (o n : Times) :
    0 ≤ percent nf o n ∧ percent nf o n ≤ 100 := percent_range nf o n

/-- **C07_decreasing_field_contributes_zero.** A counter that went backwards between the two
    samples changes nothing: both functions return what they would return had it not moved.
    (Any tuples, any position.) -/
theorem C07_decreasing_field_contributes_zero (fields : List Fld) (t1 t2 : Sample) (i : Nat)
    (h1 : i < t1.length) (h2 : i < t2.length) (hle : t2[i] ≤ t1[i]) :
    calcPercent cfg fields t1 t2 = calcPercent cfg fields t1 (t2.set i t1[i]) ∧
    calcTimesPercent cfg fields t1 t2 = calcTimesPercent cfg fields t1 (t2.set i t1[i]) := by
  have hd := deltas_decreasing cfg cfg_good t1 t2 i h1 h2 hle
  unfold calcPercent calcTimesPercent
  rw [hd]
  exact ⟨rfl, rfl⟩

/-- **C07_guest_not_double_counted.** Elapsed time is the sum over the eight non-guest columns:
    `_cpu_tot_time` of the deltas equals `total`, which has no guest term. -/
theorem C07_guest_not_double_counted (vlen : Nat) (o n : Times) :
    totTime cfg (fieldsFor cfg vlen)
        (deltas cfg (o.expose (nfOf vlen)) (n.expose (nfOf vlen))) = total (nfOf vlen) o n := by
  rw [fieldsFor_eq cfg cfg_good, deltas_eq cfg cfg_good]
  exact (tot_busy cfg cfg_good o n _ (nfOf_cases vlen)).1

/-- … and in the kernel's own terms: when a guest runs for `g` more seconds the kernel adds `g`
    to both `user` and `guest`; elapsed and busy time then grow by `g`, not `2g`. -/
theorem C07_guest_accounting (nf : Nat) (o n : Times) (g : Rat) (hg : 0 ≤ g)
    (hu : o.user ≤ n.user) :
    let n' := { n with user := n.user + g, guest := n.guest + g }
    total nf o n' = total nf o n + g ∧ busy nf o n' = busy nf o n + g := by
  have e1 : adv o.user (n.user + g) = adv o.user n.user + g := by
    unfold adv
    by_cases h : n.user ≤ o.user
    · have : n.user = o.user := le_antisymm h hu
      by_cases hg0 : g = 0
      · subst hg0; simp [this]
      · have hpos : 0 < g := lt_of_le_of_ne hg (Ne.symm hg0)
        have : ¬ (n.user + g ≤ o.user) := by linarith
        simp [h, this]; linarith
    · have : ¬ (n.user + g ≤ o.user) := by linarith [lt_of_not_ge h]
      simp [h, this]; ring
  simp only [total, busy, stealAdv, e1]
  constructor <;> ring

/-! ## C. `cpu_times_percent()` -/

/-- **C07_tp_range.** Every returned share is within [0, 100] — for any two tuples at all. -/
theorem C07_tp_range (fields : List Fld) (t1 t2 : Sample) (l : Sample)
    (h : calcTimesPercent cfg fields t1 t2 = .ok l) : ∀ x ∈ l, 0 ≤ x ∧ x ≤ 100 := by
  unfold calcTimesPercent at h
  simp only [Except.ok.injEq] at h
  subst h
  intro x hx
  obtain ⟨a, _, rfl⟩ := List.mem_map.mp hx
  rw [clamp_eq cfg cfg_good]
  exact clamp100_range _

/-- **C07_tp_sum (exact part).** Whenever any time elapsed — one tick or a year — the exact
    shares of the non-guest columns (the first eight) add up to exactly 100, each within [0,100]. -/
theorem C07_tp_sum_exact (vlen : Nat) (o n : Times) (hT : total (nfOf vlen) o n ≠ 0) :
    (((advs (nfOf vlen) o n).take 8).map (shareExact (nfOf vlen) o n)).sum = 100 ∧
    ∀ a ∈ (advs (nfOf vlen) o n).take 8,
      0 ≤ shareExact (nfOf vlen) o n a ∧ shareExact (nfOf vlen) o n a ≤ 100 := by
  refine ⟨shareExact_sum _ (nfOf_cases vlen) o n hT, ?_⟩
  intro a ha
  obtain ⟨h0, h1⟩ := nonGuest_mem _ (nfOf_cases vlen) o n a ha
  have hpos : 0 < total (nfOf vlen) o n := lt_of_le_of_ne (total_nonneg _ o n) (Ne.symm hT)
  exact ratio_range h0 h1 hpos

/-- **C07_tp_sum (after rounding).** The returned (rounded, clamped) non-guest shares add up to
    100 within 0.05 per field. -/
theorem C07_tp_sum_rounded (vlen : Nat) (o n : Times) (hT : total (nfOf vlen) o n ≠ 0) :
    ((shares (nfOf vlen) o n).take 8).sum - 100 ≤ 8 / 20 ∧
    100 - ((shares (nfOf vlen) o n).take 8).sum ≤ 8 / 20 := by
  obtain ⟨hsum, hrange⟩ := C07_tp_sum_exact vlen o n hT
  -- clamping does nothing on the non-guest columns
  have hsh : (shares (nfOf vlen) o n).take 8
      = (((advs (nfOf vlen) o n).take 8).map (shareExact (nfOf vlen) o n)).map (roundN 1) := by
    unfold shares
    rw [← List.map_take, List.map_map]
    apply List.map_congr_left
    intro a ha
    obtain ⟨h0, h1⟩ := hrange a ha
    simp only [Function.comp, round1]
    exact clamp100_id (roundN_one_nonneg h0) (roundN_one_le_100 h1)
  obtain ⟨e1, e2⟩ := sum_round_err (((advs (nfOf vlen) o n).take 8).map (shareExact (nfOf vlen) o n))
  rw [hsh]
  have hlen : ((((advs (nfOf vlen) o n).take 8).map (shareExact (nfOf vlen) o n)).length : ℚ) ≤ 8 := by
    have : (((advs (nfOf vlen) o n).take 8).map (shareExact (nfOf vlen) o n)).length ≤ 8 := by
      simp only [List.length_map, List.length_take]; omega
    exact_mod_cast this
  rw [hsum] at e1 e2
  constructor <;> linarith

/-- the full-strength statement: for EVERY positive elapsed time, however short, the call
    returns the shares of the elapsed time -/
def C07_tp_sum_Full (c : Cfg) : Prop :=
  ∀ (vlen : Nat) (o n : Times), 0 < total (nfOf vlen) o n →
    calcTimesPercent c (fieldsFor c vlen) (o.expose (nfOf vlen)) (n.expose (nfOf vlen))
      = .ok (shares (nfOf vlen) o n)

/-- **C07_tp_sum_fixed.** With `scale = 100 / all_delta` whenever `all_delta > 0` the full
    statement holds. -/
theorem C07_tp_sum_fixed (c : Cfg) (hg : c.Good) (hm : c.tpMaxOne = false) : C07_tp_sum_Full c := by
  intro vlen o n hT
  rw [fieldsFor_eq c hg]
  exact calcTimesPercent_eq c hg _ (nfOf_cases vlen) o n (tpScale_fixed c hg hm hT)

/-- **C07_tp_sum_partial.** With either guard the statement holds once at least one second of
    CPU time elapsed. -/
theorem C07_tp_sum_partial (c : Cfg) (hg : c.Good) (vlen : Nat) (o n : Times)
    (hT : 1 ≤ total (nfOf vlen) o n) :
    calcTimesPercent c (fieldsFor c vlen) (o.expose (nfOf vlen)) (n.expose (nfOf vlen))
      = .ok (shares (nfOf vlen) o n) := by
  rw [fieldsFor_eq c hg]
  apply calcTimesPercent_eq c hg _ (nfOf_cases vlen) o n
  cases hm : c.tpMaxOne with
  | true => exact tpScale_maxOne_ge c hg hm hT
  | false => exact tpScale_fixed c hg hm (by linarith)

/-- **C07_tp_sum_counterexample.** With `scale = 100 / max(1, all_delta)` the full statement is
    false: 0.02 s user + 0.01 s system + 0.07 s idle (0.1 s in total) is reported as
    user = 2.0, system = 1.0, idle = 7.0 — shares of one *second* — instead of 20/10/70. -/
theorem C07_tp_sum_counterexample (c : Cfg) (hg : c.Good) (hm : c.tpMaxOne = true) :
    ¬ C07_tp_sum_Full c := by
  intro hfull
  let o : Times := ⟨0, 0, 0, 0, 0, 0, 0, 0, 0, 0⟩
  let n : Times := ⟨2 / 100, 0, 1 / 100, 7 / 100, 0, 0, 0, 0, 0, 0⟩
  have hnf : nfOf 8 = 8 := by decide
  have htot : total 8 o n = 1 / 10 := by norm_num [total, busy, stealAdv, adv, o, n]
  have h1 := hfull 8 o n (by rw [hnf, htot]; norm_num)
  rw [hnf, fieldsFor_eq c hg, hnf,
    calcTimesPercent_subsecond c hg hm 8 (by simp) o n (by rw [htot]; norm_num)] at h1
  simp only [Except.ok.injEq] at h1
  have h2 := congrArg (fun l => l.headD 0) h1
  have r2 : round1 2 = 2 := by
    have := roundN_one_tenths 20
    norm_num at this
    exact this
  have r20 : round1 20 = 20 := by
    have := roundN_one_tenths 200
    norm_num at this
    exact this
  have ea : adv 0 (2 / 100) = 2 / 100 := by norm_num [adv]
  simp only [advs, shares, Times.cols, o, n, List.zipWith, List.take, List.map, List.headD,
    shareExact, htot, ea] at h2
  norm_num [r2, r20, clamp100] at h2

/-- proof obligation on the translator's fact `tpMaxOne` (round 3, audit item 4): the code as it is divides by
    `max(1, all_delta)`. The known finding C07-tp-subsecond rests on this value; a repair of the guard
    (`100.0 / all_delta if all_delta > 0 else 0.0`, for which `C07_tp_sum_fixed` is already proved) stops this
    theorem building — and with it `C07_tp_sum_code` — so the finding cannot silently outlive its cause. -/
theorem cfg_tp_max_one : cfg.tpMaxOne = true := by decide

/-- **C07_tp_sum_code.** The closed statement for the code as it is NOW: "the shares add up to 100 whenever
    any time elapsed, however short" is FALSE of `cpu_times_percent()` (witness: 0.1 s of CPU time, reported as
    shares of one second; known finding C07-tp-subsecond, replayed on the real code on every run). What does
    hold for the current code is `C07_tp_sum_partial` (elapsed CPU time ≥ 1 s: the non-guest shares add up to
    100 ± 8·0.05 by `C07_tp_sum_rounded`). -/
theorem C07_tp_sum_code : ¬ C07_tp_sum_Full cfg :=
  C07_tp_sum_counterexample cfg cfg_good cfg_tp_max_one

/-- **C07_per_cpu_separately.** With `percpu=True` entry `k` of the result is `calculate()` of
    the two `k`-th samples and of nothing else; the result is as long as the shorter list. -/
theorem C07_per_cpu_separately {β : Type} (f : Sample → Sample → PRes β) (as bs : List Sample)
    (vs : List β) (h : mapPairs f as bs = .ok vs) :
    vs.length = min as.length bs.length ∧
    ∀ k (hk : k < vs.length) (ha : k < as.length) (hb : k < bs.length),
      f as[k] bs[k] = .ok vs[k] := mapPairs_get f as bs vs h

/-- **C07_percpu_any_lengths.** What `percpu=True` returns when the two per-CPU samples have
    DIFFERENT lengths (a CPU was added or removed between them): one percentage per CPU present in
    both samples, position by position — entry `k` from the two `k`-th records and from nothing
    else — and nothing for the CPUs present in only one of them. No entry is ever computed from
    records at two different positions. (Positions versus the kernel's own CPU NUMBERS: section F,
    `C07_percpu_by_number_partial` / `C07_percpu_by_number_counterexample`.) -/
theorem C07_percpu_any_lengths (vlen tck : Nat) (os ns : List Times) :
    calcStored ⟨cfg, vlen, tck⟩ .percent (.many (os.map (Times.expose (nfOf vlen))))
        (.many (ns.map (Times.expose (nfOf vlen))))
      = .ok (.nums (perCpuPercent (nfOf vlen) os ns)) ∧
    (perCpuPercent (nfOf vlen) os ns).length = min os.length ns.length := by
  constructor
  · simp only [calcStored, Env.fields]
    have : mapPairs (calcPercent cfg (fieldsFor cfg vlen)) (os.map (Times.expose (nfOf vlen)))
        (ns.map (Times.expose (nfOf vlen))) = .ok (perCpuPercent (nfOf vlen) os ns) := by
      induction os generalizing ns with
      | nil => simp [mapPairs, perCpuPercent]
      | cons o os ih =>
        cases ns with
        | nil => simp [mapPairs, perCpuPercent]
        | cons n ns =>
          simp only [List.map_cons, mapPairs, C07_percent_formula, ih ns, perCpuPercent]
    rw [this]
    rfl
  · induction os generalizing ns with
    | nil => simp [perCpuPercent]
    | cons o os ih =>
      cases ns with
      | nil => simp [perCpuPercent]
      | cons n ns => simp [perCpuPercent, ih ns, Nat.succ_min_succ]

/-- **C07_percpu_cpu_count_change.** End to end on kernel states with ANY two numbers of CPUs: a
    thread's first `cpu_percent(percpu=True)` that sees `w1` (n₁ CPUs) and then `w2` (n₂ CPUs)
    returns min(n₁, n₂) values, the `k`-th being CPU `k`'s percentage on the kernel's own
    counters, and remembers ALL n₂ CPUs of `w2` for the next call. -/
theorem C07_percpu_cpu_count_change (tck : Nat) (htck : 0 < tck) (vlen ncols : Nat)
    (hcols : nfOf vlen ≤ ncols) (w1 w2 : ProcStat)
    (ho1 : ∀ l ∈ w1.other, 10 ∉ l) (ho2 : ∀ l ∈ w2.other, 10 ∉ l)
    (hp1 : ∀ l ∈ w1.other, startsWith [99, 112, 117] l = false)
    (hp2 : ∀ l ∈ w2.other, startsWith [99, 112, 117] l = false) (tid : Tid) (rest : List Bytes) :
    let e : Env := ⟨cfg, vlen, tck⟩
    let c : Call := ⟨.percent, tid, none, true, renderProcStat ncols w1 :: renderProcStat ncols w2 :: rest⟩
    (step e St.init c).2 =
        .ok (.nums (perCpuPercent (nfOf vlen) (w1.cpus.map (Times.ofTicks tck))
                      (w2.cpus.map (Times.ofTicks tck)))) 2 ∧
    (step e St.init c).1 ⟨.percent, true⟩ tid = some (.many (w2.cpus.map (seconds tck (nfOf vlen)))) := by
  intro e c
  have s1 : sample e true (renderProcStat ncols w1) = .ok (.many (w1.cpus.map (seconds tck (nfOf vlen)))) := by
    simp only [sample, Env.fields, if_true, e]
    rw [C07_per_cpu_times_exact tck htck vlen ncols hcols w1 ho1 hp1]
  have s2 : sample e true (renderProcStat ncols w2) = .ok (.many (w2.cpus.map (seconds tck (nfOf vlen)))) := by
    simp only [sample, Env.fields, if_true, e]
    rw [C07_per_cpu_times_exact tck htck vlen ncols hcols w2 ho2 hp2]
  have hsec : ∀ l : List Ticks, l.map (seconds tck (nfOf vlen))
      = (l.map (Times.ofTicks tck)).map (Times.expose (nfOf vlen)) := by
    intro l
    simp [List.map_map, Function.comp_def, C07_seconds_expose]
  have hc : calcStored e .percent (.many (w1.cpus.map (seconds tck (nfOf vlen))))
      (.many (w2.cpus.map (seconds tck (nfOf vlen))))
      = .ok (.nums (perCpuPercent (nfOf vlen) (w1.cpus.map (Times.ofTicks tck))
                      (w2.cpus.map (Times.ofTicks tck)))) := by
    rw [hsec, hsec]
    exact (C07_percpu_any_lengths vlen tck _ _).1
  constructor
  · rw [step_unfold]
    simp only [c, Call.negative, Call.blocking, refOf, usable, St.init, Bool.false_eq_true, if_false, s1]
    rw [finish_out]
    simp only [s2, hc]
  · rw [step_entry e cfg_good.dictsDistinct]
    simp [prevStep, taken, c, Call.fam, Call.negative, Call.blocking, usable, St.init, s1, s2,
      Except.toOption]

/-! ## D. each thread against its own previous sample -/

/-- **C07_own_previous_sample.** After ANY history of calls (both functions, both variants, any
    threads, blocking or not, failing reads included) a call returns exactly what the
    history-defined specification says: the newest sample compared with the sample the *same
    thread* last took through the *same function and variant* (or with a fresh first sample if
    there is none, if it is an empty CPU list, or if the call blocks). -/
theorem C07_own_previous_sample (vlen tck : Nat) (h : List Call) (c : Call) :
    let e : Env := ⟨cfg, vlen, tck⟩
    (step e (runAll e St.init h) c).2 = expected (sample e) (calcStored e) h c := by
  intro e
  apply step_out e cfg_good.dictsDistinct
  rw [runAll_entry e cfg_good.dictsDistinct]
  rfl

/-- **C07_thread_independence.** What thread `tid` is told by its calls does not depend on the
    calls of any other thread: deleting all other threads' calls from the history leaves the
    sequence of its results unchanged. (Serial interleavings of whole calls.) -/
theorem C07_thread_independence (vlen tck : Nat) (tid : Tid) (h : List Call) :
    let e : Env := ⟨cfg, vlen, tck⟩
    outputsOf e tid St.init h = outputs e St.init (h.filter fun c => decide (c.tid = tid)) := by
  intro e
  exact outputsOf_filter e tid h St.init St.init (fun _ => rfl)

/-- **C07_thread_independence_interleaved.** The same at the granularity of the dictionary
    accesses (`last.get(tid)`, the `or` sample, `last[tid] = …`, the re-read of `last[tid]`):
    for EVERY interleaving of such accesses by any number of threads, thread `i`'s dictionary
    entry and private variables are those it would have had running alone. -/
theorem C07_thread_independence_interleaved (i : Tid) (sched : List (Tid × MOp)) (s : MSt) :
    (mrun s sched).last i = (mrun s (sched.filter fun p => decide (p.1 = i))).last i ∧
    (mrun s sched).loc i = (mrun s (sched.filter fun p => decide (p.1 = i))).loc i :=
  mrun_project i sched s s rfl rfl

/-- … and one call is exactly its accesses in program order: they leave the new sample in the
    dictionary and compare it with the thread's own usable previous sample, else the fresh one. -/
theorem C07_call_is_its_accesses (s : MSt) (t : Tid) (blocking : Bool) (first new : Stored) :
    let s' := mrun s ((program blocking first new).map fun op => (t, op))
    s'.last t = some new ∧ (s'.loc t).t2 = some new ∧
      (s'.loc t).t1 = some (if blocking then first else (usable (s.last t)).getD first) :=
  mrun_program s t blocking first new

/-- **C07_end_to_end.** Parsing, dictionary logic and arithmetic composed: a thread's first
    `cpu_percent()` that sees kernel state `w1` and then `w2` in `/proc/stat` returns the
    percentage of the specification computed on the kernel's own counters. -/
theorem C07_end_to_end (tck : Nat) (htck : 0 < tck) (vlen ncols : Nat) (hcols : nfOf vlen ≤ ncols)
    (w1 w2 : ProcStat) (ho1 : ∀ l ∈ w1.other, 10 ∉ l) (ho2 : ∀ l ∈ w2.other, 10 ∉ l) (tid : Tid)
    (rest : List Bytes) :
    let e : Env := ⟨cfg, vlen, tck⟩
    let c : Call := ⟨.percent, tid, none, false, renderProcStat ncols w1 :: renderProcStat ncols w2 :: rest⟩
    (step e St.init c).2 =
      .ok (.num (percent (nfOf vlen) (Times.ofTicks tck w1.total) (Times.ofTicks tck w2.total))) 2 := by
  intro e c
  have s1 : sample e false (renderProcStat ncols w1) = .ok (.one (seconds tck (nfOf vlen) w1.total)) := by
    simp only [sample, Env.fields, Bool.false_eq_true, if_false, e]
    rw [C07_times_exact tck htck vlen ncols hcols w1 ho1]
  have s2 : sample e false (renderProcStat ncols w2) = .ok (.one (seconds tck (nfOf vlen) w2.total)) := by
    simp only [sample, Env.fields, Bool.false_eq_true, if_false, e]
    rw [C07_times_exact tck htck vlen ncols hcols w2 ho2]
  have hc : calcStored e .percent (.one (seconds tck (nfOf vlen) w1.total)) (.one (seconds tck (nfOf vlen) w2.total))
      = .ok (.num (percent (nfOf vlen) (Times.ofTicks tck w1.total) (Times.ofTicks tck w2.total))) := by
    simp only [calcStored, Env.fields, C07_seconds_expose, e]
    rw [C07_percent_formula]
    rfl
  rw [step_unfold]
  simp only [c, Call.negative, Call.blocking, refOf, usable, St.init, Bool.false_eq_true, if_false, s1]
  rw [finish_out]
  simp only [s2, hc]

/-! ### "since last call or module import" — the very first call -/

/-- **C07_since_import.** The state the module-level code leaves behind when thread `tid0` imports
    psutil (one system-wide and one per-CPU sample, shared by both functions; nothing when the read
    failed; nothing for any other thread) is the starting point: after ANY history that follows,
    a call returns the history-defined value measured from the import-time sample. In particular
    the importing thread's first `cpu_percent()` measures "since import" with ONE read, every
    other thread's first call takes two samples back to back. -/
theorem C07_since_import (vlen tck : Nat) (tid0 : Tid) (r0 r1 : Bytes) (h : List Call) (c : Call) :
    let e : Env := ⟨cfg, vlen, tck⟩
    (step e (runAll e (importState e tid0 r0 r1) h) c).2
      = expectedSinceImport (sample e) (calcStored e) tid0 r0 r1 h c := by
  intro e
  rw [step_out_ref e cfg_good.dictsDistinct, runAll_entry e cfg_good.dictsDistinct, importState_entry]
  rfl

/-- **C07_first_call_after_import.** End to end: psutil imported while the kernel state was `w0`,
    the importing thread's first non-blocking `cpu_percent()` made when it is `w1`: ONE read, the
    percentage between `w0` and `w1` on the kernel's own counters. -/
theorem C07_first_call_after_import (tck : Nat) (htck : 0 < tck) (vlen ncols : Nat)
    (hcols : nfOf vlen ≤ ncols) (w0 w1 : ProcStat) (ho0 : ∀ l ∈ w0.other, 10 ∉ l)
    (ho1 : ∀ l ∈ w1.other, 10 ∉ l) (tid0 : Tid) (rPer : Bytes) (rest : List Bytes) :
    let e : Env := ⟨cfg, vlen, tck⟩
    let c : Call := ⟨.percent, tid0, none, false, renderProcStat ncols w1 :: rest⟩
    (step e (importState e tid0 (renderProcStat ncols w0) rPer) c).2 =
      .ok (.num (percent (nfOf vlen) (Times.ofTicks tck w0.total) (Times.ofTicks tck w1.total))) 1 := by
  intro e c
  have s0 : sample e false (renderProcStat ncols w0) = .ok (.one (seconds tck (nfOf vlen) w0.total)) := by
    simp only [sample, Env.fields, Bool.false_eq_true, if_false, e]
    rw [C07_times_exact tck htck vlen ncols hcols w0 ho0]
  have s1 : sample e false (renderProcStat ncols w1) = .ok (.one (seconds tck (nfOf vlen) w1.total)) := by
    simp only [sample, Env.fields, Bool.false_eq_true, if_false, e]
    rw [C07_times_exact tck htck vlen ncols hcols w1 ho1]
  have hc : calcStored e .percent (.one (seconds tck (nfOf vlen) w0.total)) (.one (seconds tck (nfOf vlen) w1.total))
      = .ok (.num (percent (nfOf vlen) (Times.ofTicks tck w0.total) (Times.ofTicks tck w1.total))) := by
    simp only [calcStored, Env.fields, C07_seconds_expose, e]
    rw [C07_percent_formula]
    rfl
  have htr : (Stored.one (seconds tck (nfOf vlen) w0.total)).truthy = true := by
    rcases nfOf_cases vlen with h | h | h | h <;> simp [Stored.truthy, seconds, Ticks.cols, h]
  have hst : importState e tid0 (renderProcStat ncols w0) rPer c.fam c.tid
      = some (.one (seconds tck (nfOf vlen) w0.total)) := by
    rw [importState_entry]
    simp [importSample, c, Call.fam, s0, Except.toOption]
  rw [step_out_ref e cfg_good.dictsDistinct, hst]
  simp only [expectedRef, c, Call.negative, Call.blocking, usable, htr, Bool.false_eq_true, if_false,
    if_true, s1, hc]

/-! ### threads and thread identifiers -/

/-- the full-strength statement in terms of THREADS: read `Call.tid` as the thread that calls and
    let `ident` be the identifier the interpreter gave it (`threading.current_thread().ident`,
    which may be handed out again after a thread has ended — `DisjointLifetimes`). Every call is
    measured against the calling *thread's* own previous sample. -/
def C07_own_thread_Full (c0 : Cfg) : Prop :=
  ∀ (vlen tck : Nat) (ident : Tid → Tid) (h : List Call) (c : Call),
    DisjointLifetimes ident (h ++ [c]) →
    (step ⟨c0, vlen, tck⟩ (runAll ⟨c0, vlen, tck⟩ St.init (h.map (reTid ident))) (reTid ident c)).2
      = expected (sample ⟨c0, vlen, tck⟩) (calcStored ⟨c0, vlen, tck⟩) h c

/-- **C07_own_thread_partial.** The statement holds whenever no two threads of the history share
    an identifier — the explicit hypothesis under which `C07_own_previous_sample` speaks about
    threads rather than identifiers. -/
theorem C07_own_thread_partial (vlen tck : Nat) (ident : Tid → Tid) (h : List Call) (c : Call)
    (hinj : IdentInjectiveOn ident h c) :
    (step ⟨cfg, vlen, tck⟩ (runAll ⟨cfg, vlen, tck⟩ St.init (h.map (reTid ident))) (reTid ident c)).2
      = expected (sample ⟨cfg, vlen, tck⟩) (calcStored ⟨cfg, vlen, tck⟩) h c := by
  have h1 := C07_own_previous_sample vlen tck (h.map (reTid ident)) (reTid ident c)
  simp only at h1
  rw [h1]
  unfold expected prev
  have hp := prev_reTid (sample ⟨cfg, vlen, tck⟩) ident c.fam c.tid h
    (fun a ha hi => hinj a (by simp [ha]) c (by simp) hi) none
  have e1 : (reTid ident c).fam = c.fam := rfl
  have e2 : (reTid ident c).tid = ident c.tid := rfl
  rw [e1, e2, hp]
  rfl

/-- **C07_ident_reuse_inherits.** What is returned when identifiers ARE shared: the sample filed
    under the caller's identifier by whoever used that identifier last — a new thread that got
    a dead thread's identifier is measured against the dead thread's last sample (one read; the
    documentation calls the first value meaningless). -/
theorem C07_ident_reuse_inherits (vlen tck : Nat) (ident : Tid → Tid) (h : List Call) (c : Call) :
    (step ⟨cfg, vlen, tck⟩ (runAll ⟨cfg, vlen, tck⟩ St.init (h.map (reTid ident))) (reTid ident c)).2
      = expected (sample ⟨cfg, vlen, tck⟩) (calcStored ⟨cfg, vlen, tck⟩)
          (h.map (reTid ident)) (reTid ident c) :=
  C07_own_previous_sample vlen tck (h.map (reTid ident)) (reTid ident c)

/-- **C07_ident_reuse_counterexample.** Without the hypothesis the thread-level statement is
    FALSE: thread 1 calls `cpu_percent()` and ends, thread 2 is given the same identifier; its
    first call is answered from thread 1's sample with ONE read instead of taking its own two. -/
theorem C07_ident_reuse_counterexample : ¬ C07_own_thread_Full cfg := by
  intro hfull
  let w : ProcStat := ⟨⟨1, 2, 3, 4, 5, 6, 7, 8, 9, 10⟩, [], []⟩
  let r : Bytes := renderProcStat 10 w
  let e : Env := ⟨cfg, 10, 100⟩
  let c1 : Call := ⟨.percent, 1, none, false, [r, r]⟩
  let c2 : Call := ⟨.percent, 2, none, false, [r, r]⟩
  have hd : DisjointLifetimes (fun _ => 7) ([c1] ++ [c2]) := by
    intro i j k hi hj hk
    simp at hk
    omega
  have h1 := hfull 10 100 (fun _ => 7) [c1] c2 hd
  rw [C07_ident_reuse_inherits] at h1
  have hnf : nfOf 10 = 10 := by decide
  have s0 : sample e false r = .ok (.one (seconds 100 10 w.total)) := by
    simp only [sample, Env.fields, Bool.false_eq_true, if_false, e, r]
    rw [C07_times_exact 100 (by decide) 10 10 (by decide) w (by simp [w]), hnf]
  have hc : calcStored e .percent (.one (seconds 100 10 w.total)) (.one (seconds 100 10 w.total))
      = .ok (.num (percent 10 (Times.ofTicks 100 w.total) (Times.ofTicks 100 w.total))) := by
    have := C07_percent_formula 10 (Times.ofTicks 100 w.total) (Times.ofTicks 100 w.total)
    rw [hnf] at this
    simp only [calcStored, Env.fields, C07_seconds_expose, e, this]
    rfl
  have htr : (Stored.one (seconds 100 10 w.total)).truthy = true := by
    simp [Stored.truthy, seconds, Ticks.cols]
  have hL : expected (sample e) (calcStored e) ([c1].map (reTid fun _ => 7)) (reTid (fun _ => 7) c2)
      = .ok (.num (percent 10 (Times.ofTicks 100 w.total) (Times.ofTicks 100 w.total))) 1 := by
    simp [expected, expectedRef, prev, prevStep, taken, reTid, c1, c2, Call.fam, Call.negative,
      Call.blocking, usable, s0, hc, htr, Except.toOption]
  have hR : expected (sample e) (calcStored e) [c1] c2
      = .ok (.num (percent 10 (Times.ofTicks 100 w.total) (Times.ofTicks 100 w.total))) 2 := by
    simp [expected, expectedRef, prev, prevStep, c1, c2, Call.fam, Call.negative,
      Call.blocking, usable, s0, hc]
  rw [hL, hR] at h1
  simp at h1

/-- **C07_negative_interval_raises.** A negative interval raises ValueError before anything is
    read or remembered. -/
theorem C07_negative_interval_raises (e : Env) (s : St) (c : Call) (i : Rat)
    (hi : c.interval = some i) (hneg : i < 0) : step e s c = (s, .exc .valueError 0) := by
  have : c.negative = true := by simp [Call.negative, hi, hneg]
  simp [step, this]

/-! ## E. `Process.cpu_percent()` -/

/-- **C07_proc_percent** (the part of `C07_proc_percent_Full` that holds for the code as found
    AND as repaired). After ANY history of `cpu_percent` calls on any number of `Process`
    objects (CPU count constant): a call returns `round1(100·(CPU seconds used)/(wall seconds
    elapsed))` measured from that object's own previous call, 0.0 on the object's first call
    and when no wall time elapsed, and raises ValueError for a negative interval; the blocking
    form measures across its own interval. -/
theorem C07_proc_percent (tck : Nat) (k : Option Int) (h : List PCall) (p : PCall)
    (hk : ∀ q ∈ h, q.ncpuRaw = k) (hp : p.ncpuRaw = k) :
    (pstep cfg tck (prunAll cfg tck PSt.init h) p).2 = pexpected tck h p := by
  have hs := prunAll_entry cfg cfg_good tck k h hk PSt.init none p.obj rfl
  unfold pstep pexpected pexpectedExact
  by_cases hn : p.negative = true
  · simp [hn]
  by_cases hv : p.vanishes = true
  · simp [hn, hv]
  · simp only [hn, hv, Bool.false_eq_true, if_false, hp]
    by_cases hb : p.blocking = true
    · simp only [hb, if_true]
      cases p.timer with
      | nil => rfl
      | cons t1 ts =>
        cases ts with
        | nil => cases p.times <;> rfl
        | cons t2 ts' =>
          cases p.times with
          | nil => rfl
          | cons a as =>
            cases as with
            | nil => rfl
            | cons b bs =>
              obtain ⟨u1, s1⟩ := a
              obtain ⟨u2, s2⟩ := b
              simp only [procFinish_eq cfg cfg_good]
    · simp only [hb, Bool.false_eq_true, if_false]
      cases p.timer with
      | nil => rfl
      | cons t2 ts =>
        cases p.times with
        | nil => rfl
        | cons a as =>
          obtain ⟨u2, s2⟩ := a
          simp only [hs, pprev]
          cases List.foldl (pprevStep p.obj) none h with
          | none => simp [round1, roundN_one_zero]
          | some v =>
            obtain ⟨w1, u1, s1⟩ := v
            simp only [Option.map_some, procFinish_eq cfg cfg_good]

/-- the full-strength statement the property makes — no exception for a CPU count that changes
    between two calls (CPU hot-plug, `psutil.cpu_count()` differs): after ANY history, with ANY
    sequence of CPU counts, a call returns `round1(100·Δcpu/Δwall)` since that object's
    previous call -/
def C07_proc_percent_Full (c : Cfg) : Prop :=
  ∀ (tck : Nat) (h : List PCall) (p : PCall),
    (pstep c tck (prunAll c tck PSt.init h) p).2 = pexpected tck h p

/-- **C07_proc_percent_fixed.** When the raw clock is remembered and the *difference* is scaled by
    the current CPU count (`delta_time = (st2 - st1) * num_cpus`), the full statement holds. -/
theorem C07_proc_percent_fixed (c : Cfg) (hg : c.Good) (hs : c.procScaleDelta = true) :
    C07_proc_percent_Full c := by
  intro tck h p
  have he := prunAll_entry_fixed c hs tck h PSt.init none p.obj rfl
  unfold pstep pexpected pexpectedExact
  by_cases hn : p.negative = true
  · simp [hn]
  by_cases hv : p.vanishes = true
  · simp [hn, hv]
  · simp only [hn, hv, Bool.false_eq_true, if_false]
    by_cases hb : p.blocking = true
    · simp only [hb, if_true]
      cases p.timer with
      | nil => rfl
      | cons t1 ts =>
        cases ts with
        | nil => cases p.times <;> rfl
        | cons t2 ts' =>
          cases p.times with
          | nil => rfl
          | cons a as =>
            cases as with
            | nil => rfl
            | cons b bs =>
              obtain ⟨u1, s1⟩ := a
              obtain ⟨u2, s2⟩ := b
              simp only [procStamp, hs, if_true, procFinish_fixed c hg hs]
    · simp only [hb, Bool.false_eq_true, if_false]
      cases p.timer with
      | nil => rfl
      | cons t2 ts =>
        cases p.times with
        | nil => rfl
        | cons a as =>
          obtain ⟨u2, s2⟩ := a
          simp only [he, pprev]
          cases List.foldl (pprevStep p.obj) none h with
          | none => simp [round1, roundN_one_zero]
          | some v =>
            obtain ⟨w1, u1, s1⟩ := v
            simp only [Option.map_some, procStamp, hs, if_true, procFinish_fixed c hg hs]

/-- **C07_proc_percent_counterexample.** With `timer() = _timer() * num_cpus` remembered (the code
    as found) the full statement is FALSE: a process that used 1 s of CPU during 1 s of wall time
    while the CPU count went from 2 to 1 is reported a *negative* percentage
    (`delta_time = 101·1 − 100·2 = −99`), the specification says 100.0. -/
theorem C07_proc_percent_counterexample (c : Cfg) (hg : c.Good) (hs : c.procScaleDelta = false) :
    ¬ C07_proc_percent_Full c := by
  intro hfull
  have h1 := hfull 100 [⟨0, none, some 2, [100], [(0, 0)], none⟩] ⟨0, none, some 1, [101], [(100, 0)], none⟩
  have hl : (pstep c 100 (prunAll c 100 PSt.init [⟨0, none, some 2, [100], [(0, 0)], none⟩])
      ⟨0, none, some 1, [101], [(100, 0)], none⟩).2 = .val (roundN 1 (-(100 : ℚ) / 99)) := by
    simp only [prunAll, pstep, PCall.negative, PCall.blocking, PCall.vanishes, PSt.init, PSt.set, numCpus, procStamp,
      hs, procFinish, hg.procFactor, hg.procDigits, procSecs]
    norm_num
    simp only [pset_same]
    norm_num
  have hr : pexpected 100 [⟨0, none, some 2, [100], [(0, 0)], none⟩] ⟨0, none, some 1, [101], [(100, 0)], none⟩
      = .val (round1 100) := by
    simp only [pexpected, pexpectedExact, PCall.negative, PCall.blocking, PCall.vanishes, pprev, pprevStep, ptaken,
      List.foldl, procExact]
    norm_num
  rw [hl, hr] at h1
  simp only [POut.val.injEq] at h1
  obtain ⟨_, _, ha, _, _⟩ := roundN_one_isRound1 (-(100 : ℚ) / 99)
  obtain ⟨_, _, _, hb, _⟩ := roundN_one_isRound1 (100 : ℚ)
  unfold round1 at h1
  rw [h1] at ha
  linarith

/-- **C07_proc_first_call_zero.** The first non-blocking call on an object returns 0.0. -/
theorem C07_proc_first_call_zero (tck : Nat) (s : PSt) (p : PCall) (t : Rat) (u st : Nat)
    (ts : List Rat) (us : List (Nat × Nat))
    (hfirst : s p.obj = none) (hn : p.negative = false) (hb : p.blocking = false) (hv : p.vanishes = false)
    (ht : p.timer = t :: ts) (hu : p.times = (u, st) :: us) :
    (pstep cfg tck s p).2 = .val 0 := by
  simp [pstep, hn, hb, hv, ht, hu, hfirst]

/-- **C07_proc_negative_interval.** Negative interval → ValueError, nothing remembered. -/
theorem C07_proc_negative_interval (tck : Nat) (s : PSt) (p : PCall) (i : Rat)
    (hi : p.interval = some i) (hneg : i < 0) : pstep cfg tck s p = (s, .exc .valueError) := by
  have : p.negative = true := by simp [PCall.negative, hi, hneg]
  simp [pstep, this]

/-- **C07_proc_objects_independent.** A call on one `Process` object never changes what another
    object remembers (two objects for the same PID included). -/
theorem C07_proc_objects_independent (tck : Nat) (s : PSt) (p : PCall) (o : Nat) (h : p.obj ≠ o) :
    (pstep cfg tck s p).1 o = s o := pstep_other cfg tck s p o h

/-! ## non-vacuity -/

/-- a sub-second positive total exists (the region the counterexample lives in) -/
example : ∃ o n : Times, 0 < total 8 o n ∧ total 8 o n < 1 :=
  ⟨⟨0, 0, 0, 0, 0, 0, 0, 0, 0, 0⟩, ⟨2 / 100, 0, 1 / 100, 7 / 100, 0, 0, 0, 0, 0, 0⟩, by
    norm_num [total, busy, stealAdv, adv]⟩

/-- and a total of at least one second -/
example : ∃ o n : Times, 1 ≤ total 10 o n :=
  ⟨⟨0, 0, 0, 0, 0, 0, 0, 0, 0, 0⟩, ⟨2, 0, 1, 7, 0, 0, 0, 0, 5, 0⟩, by
    norm_num [total, busy, stealAdv, adv]⟩

/-- the hypotheses of `C07_times_exact` are satisfiable: a two-CPU state with a `btime` line -/
example : ∃ w : ProcStat, w.cpus.length = 2 ∧ (∀ l ∈ w.other, 10 ∉ l) ∧
    (∀ l ∈ w.other, startsWith [99, 112, 117] l = false) :=
  ⟨⟨⟨1, 2, 3, 4, 5, 6, 7, 8, 9, 10⟩, [⟨1, 0, 0, 0, 0, 0, 0, 0, 0, 0⟩, ⟨0, 2, 3, 4, 5, 6, 7, 8, 9, 10⟩],
    [[98, 116, 105, 109, 101, 32, 49]]⟩, rfl, by decide, by decide⟩

/-- a decreasing counter exists in the domain of `C07_decreasing_field_contributes_zero` -/
example : ∃ (t1 t2 : Sample) (i : Nat) (h1 : i < t1.length) (h2 : i < t2.length), t2[i] ≤ t1[i] :=
  ⟨[1, 5], [2, 3], 1, by decide, by decide, by norm_num⟩

/-- proof obligation on the translator's fact (fix 73df480 landed): `Process.cpu_percent` remembers the
    raw clock and scales the DIFFERENCE by the current CPU count; a return to `timer()*num_cpus`
    breaks this theorem -/
theorem cfg_proc_scale_delta : cfg.procScaleDelta = true := by decide

/-- **C07_proc_percent_code.** The full statement (any sequence of CPU counts between calls) for the
    code as it is now. -/
theorem C07_proc_percent_code : C07_proc_percent_Full cfg :=
  C07_proc_percent_fixed cfg cfg_good cfg_proc_scale_delta

/-! ## F. `cpuN` lines that carry their own CPU numbers (offline CPUs are not printed) -/

/-- **C07_times_any_numbering.** The round trip of `C07_times_exact` / `C07_per_cpu_times_exact` for a
    kernel that numbers its `cpuN` lines in ANY way (`cpu0`, `cpu2`, `cpu3` after CPU 1 went offline;
    any order, gaps, even repeated numbers): `cpu_times()` is the aggregate line,
    `cpu_times(percpu=True)` lists the printed CPUs in the order printed, each exactly
    `ticks / USER_HZ` — the number after `cpu` is never looked at. -/
theorem C07_times_any_numbering (tck : Nat) (htck : 0 < tck) (vlen ncols : Nat)
    (hcols : nfOf vlen ≤ ncols) (w : ProcStatL) (ho : ∀ l ∈ w.other, 10 ∉ l)
    (hp : ∀ l ∈ w.other, startsWith [99, 112, 117] l = false) :
    cpuTimes cfg (fieldsFor cfg vlen).length tck (renderProcStatL ncols w)
      = .ok (seconds tck (nfOf vlen) w.total) ∧
    perCpuTimes cfg (fieldsFor cfg vlen).length tck (renderProcStatL ncols w)
      = .ok (w.cpus.map fun p => seconds tck (nfOf vlen) p.2) := by
  have hg := cfg_good
  have h10 : nfOf vlen ≤ 10 := (C07_fields_kernel_order vlen).2.2
  rw [fieldsFor_length cfg hg]
  constructor
  · unfold cpuTimes firstLine renderProcStatL
    rw [linesOf_unlines _ (statLinesL_no_newline ncols w ho)]
    simp only [statLinesL, List.headD_cons, splitWs_totalLine, hg.sliceFrom, hg.sliceExtra]
    exact parseCpuValues_render cfg hg tck htck _ ncols h10 hcols _ _
  · unfold perCpuTimes renderProcStatL
    rw [linesOf_unlines _ (statLinesL_no_newline ncols w ho)]
    simp only [statLinesL, List.drop_succ_cons, List.drop_zero]
    exact parseCpuLines_renderL cfg hg tck htck _ ncols h10 hcols w.other hp w.cpus

/-- the numbered renderer extends the one of `C07_times_exact`: CPUs numbered 0..n-1 print the same file -/
theorem C07_numbering_extends (ncols : Nat) (w : ProcStat) :
    renderProcStatL ncols ⟨w.total, numberFrom 0 w.cpus, w.other⟩ = renderProcStat ncols w := by
  simp [renderProcStatL, renderProcStat, statLinesL, statLines, renderCpuLinesL_numberFrom]

/-- **C07_percpu_numbered_by_position.** What `cpu_percent(percpu=True)` returns on two kernel states
    whose CPU lines carry ANY numbers: entry `k` compares the `k`-th printed line of the first
    state with the `k`-th printed line of the second, whatever their numbers. -/
theorem C07_percpu_numbered_by_position (tck : Nat) (htck : 0 < tck) (vlen ncols : Nat)
    (hcols : nfOf vlen ≤ ncols) (w1 w2 : ProcStatL)
    (ho1 : ∀ l ∈ w1.other, 10 ∉ l) (ho2 : ∀ l ∈ w2.other, 10 ∉ l)
    (hp1 : ∀ l ∈ w1.other, startsWith [99, 112, 117] l = false)
    (hp2 : ∀ l ∈ w2.other, startsWith [99, 112, 117] l = false) (tid : Tid) (rest : List Bytes) :
    (step ⟨cfg, vlen, tck⟩ St.init
        ⟨.percent, tid, none, true, renderProcStatL ncols w1 :: renderProcStatL ncols w2 :: rest⟩).2 =
      .ok (.nums (perCpuPercent (nfOf vlen) (w1.cpus.map fun p => Times.ofTicks tck p.2)
                    (w2.cpus.map fun p => Times.ofTicks tck p.2))) 2 := by
  generalize he : (⟨cfg, vlen, tck⟩ : Env) = e
  have s1 : sample e true (renderProcStatL ncols w1)
      = .ok (.many (w1.cpus.map fun p => seconds tck (nfOf vlen) p.2)) := by
    subst he
    simp only [sample, Env.fields, if_true]
    rw [(C07_times_any_numbering tck htck vlen ncols hcols w1 ho1 hp1).2]
  have s2 : sample e true (renderProcStatL ncols w2)
      = .ok (.many (w2.cpus.map fun p => seconds tck (nfOf vlen) p.2)) := by
    subst he
    simp only [sample, Env.fields, if_true]
    rw [(C07_times_any_numbering tck htck vlen ncols hcols w2 ho2 hp2).2]
  have hsec : ∀ l : List (Nat × Ticks), (l.map fun p => seconds tck (nfOf vlen) p.2)
      = (l.map fun p => Times.ofTicks tck p.2).map (Times.expose (nfOf vlen)) := by
    intro l
    simp [List.map_map, Function.comp_def, C07_seconds_expose]
  have hc : calcStored e .percent (.many (w1.cpus.map fun p => seconds tck (nfOf vlen) p.2))
      (.many (w2.cpus.map fun p => seconds tck (nfOf vlen) p.2))
      = .ok (.nums (perCpuPercent (nfOf vlen) (w1.cpus.map fun p => Times.ofTicks tck p.2)
                      (w2.cpus.map fun p => Times.ofTicks tck p.2))) := by
    subst he
    rw [hsec, hsec]
    exact (C07_percpu_any_lengths vlen tck _ _).1
  rw [step_unfold]
  simp only [Call.negative, Call.blocking, refOf, usable, St.init, Bool.false_eq_true, if_false, s1]
  rw [finish_out]
  simp only [s2, hc]

/-- the full-strength reading of "for each CPU separately" when CPUs are identified by their kernel
    NUMBER and the set of online CPUs may change between the two samples: one value per CPU online in
    both samples, each from that CPU's own two records -/
def C07_percpu_by_number_Full (c0 : Cfg) : Prop :=
  ∀ (tck : Nat), 0 < tck → ∀ (vlen ncols : Nat), nfOf vlen ≤ ncols → ∀ (w1 w2 : ProcStatL),
    (∀ l ∈ w1.other, 10 ∉ l) → (∀ l ∈ w2.other, 10 ∉ l) →
    (∀ l ∈ w1.other, startsWith [99, 112, 117] l = false) →
    (∀ l ∈ w2.other, startsWith [99, 112, 117] l = false) → ∀ (tid : Tid) (rest : List Bytes),
    (step ⟨c0, vlen, tck⟩ St.init
        ⟨.percent, tid, none, true, renderProcStatL ncols w1 :: renderProcStatL ncols w2 :: rest⟩).2 =
      .ok (.nums (perCpuByNumber (nfOf vlen) (w1.cpus.map fun p => (p.1, Times.ofTicks tck p.2))
                    (w2.cpus.map fun p => (p.1, Times.ofTicks tck p.2)))) 2

/-- **C07_percpu_by_number_partial.** Whenever the two samples list the SAME CPU numbers in the same
    order (no CPU went on- or offline in between; numbers distinct, gaps allowed), every returned
    entry is the percentage of one and the same CPU, identified by its kernel number. -/
theorem C07_percpu_by_number_partial (tck : Nat) (htck : 0 < tck) (vlen ncols : Nat)
    (hcols : nfOf vlen ≤ ncols) (w1 w2 : ProcStatL)
    (ho1 : ∀ l ∈ w1.other, 10 ∉ l) (ho2 : ∀ l ∈ w2.other, 10 ∉ l)
    (hp1 : ∀ l ∈ w1.other, startsWith [99, 112, 117] l = false)
    (hp2 : ∀ l ∈ w2.other, startsWith [99, 112, 117] l = false) (tid : Tid) (rest : List Bytes)
    (hsame : w1.cpus.map Prod.fst = w2.cpus.map Prod.fst) (hnd : (w1.cpus.map Prod.fst).Nodup) :
    (step ⟨cfg, vlen, tck⟩ St.init
        ⟨.percent, tid, none, true, renderProcStatL ncols w1 :: renderProcStatL ncols w2 :: rest⟩).2 =
      .ok (.nums (perCpuByNumber (nfOf vlen) (w1.cpus.map fun p => (p.1, Times.ofTicks tck p.2))
                    (w2.cpus.map fun p => (p.1, Times.ofTicks tck p.2)))) 2 := by
  rw [C07_percpu_numbered_by_position tck htck vlen ncols hcols w1 w2 ho1 ho2 hp1 hp2 tid rest]
  have h := perCpu_position_eq_number (nfOf vlen)
    (w1.cpus.map fun p => (p.1, Times.ofTicks tck p.2)) (w2.cpus.map fun p => (p.1, Times.ofTicks tck p.2))
    (by simpa [List.map_map, Function.comp_def] using hsame)
    (by simpa [List.map_map, Function.comp_def] using hnd)
  simp only [List.map_map, Function.comp_def] at h
  rw [h]

/-- **C07_percpu_by_number_counterexample** (characterisation, beyond the property's quantifier, which
    fixes the CPUs of a sequence of snapshots): when a CPU in the MIDDLE of the list goes offline
    between two samples the statement is false of the code. CPUs 0, 1, 2 online, CPU 1 has used 1 s;
    then CPU 1 goes offline and CPU 2 is fully busy for 1 s: position 1 compares old `cpu1` with new
    `cpu2` and reports 0.0 for a CPU that was 100 % busy. -/
theorem C07_percpu_by_number_counterexample : ¬ C07_percpu_by_number_Full cfg := by
  intro hfull
  let z : Ticks := ⟨0, 0, 0, 0, 0, 0, 0, 0, 0, 0⟩
  let u : Ticks := ⟨100, 0, 0, 0, 0, 0, 0, 0, 0, 0⟩
  let w1 : ProcStatL := ⟨u, [(0, z), (1, u), (2, z)], []⟩
  let w2 : ProcStatL := ⟨u, [(0, z), (2, u)], []⟩
  have h1 := hfull 100 (by decide) 10 10 (by decide) w1 w2 (by simp [w1]) (by simp [w2]) (by simp [w1])
    (by simp [w2]) 0 []
  rw [C07_percpu_numbered_by_position 100 (by decide) 10 10 (by decide) w1 w2 (by simp [w1]) (by simp [w2])
    (by simp [w1]) (by simp [w2]) 0 []] at h1
  simp only [Out.ok.injEq, Val.nums.injEq, and_true] at h1
  have r0 : round1 0 = 0 := by simp [round1, roundN_one_zero]
  have r100 : round1 100 = 100 := by
    have := roundN_one_tenths 1000
    norm_num at this
    exact this
  have hU : percent 10 (Times.ofTicks 100 u) (Times.ofTicks 100 u) = 0 := by
    simp [percent, percentExact, total, busy, stealAdv, adv, r0]
  have hZ : percent 10 (Times.ofTicks 100 z) (Times.ofTicks 100 u) = 100 := by
    have ht : total 10 (Times.ofTicks 100 z) (Times.ofTicks 100 u) = 1 := by
      norm_num [total, busy, stealAdv, adv, Times.ofTicks, z, u]
    have hb : busy 10 (Times.ofTicks 100 z) (Times.ofTicks 100 u) = 1 := by
      norm_num [busy, stealAdv, adv, Times.ofTicks, z, u]
    simp [percent, percentExact, ht, hb, r100]
  -- by position: [cpu0 vs cpu0, OLD cpu1 vs NEW cpu2]; by number: [cpu0 vs cpu0, cpu2 vs cpu2]
  have h2 : [percent 10 (Times.ofTicks 100 z) (Times.ofTicks 100 z),
             percent 10 (Times.ofTicks 100 u) (Times.ofTicks 100 u)]
          = [percent 10 (Times.ofTicks 100 z) (Times.ofTicks 100 z),
             percent 10 (Times.ofTicks 100 z) (Times.ofTicks 100 u)] := h1
  rw [hU, hZ] at h2
  norm_num at h2

/-! ## G. the parser on ANY bytes: which exception, exactly when -/

/-- **C07_cpu_times_any_bytes.** For EVERY content of `/proc/stat` (any bytes at all) `cpu_times()`
    is decided by the tokens of the first line alone: ValueError when one of the `nf` tokens after
    the label is not a digit string, else TypeError when there are fewer than `nf` of them, else
    their decimal values / USER_HZ (`lineOutcome`). -/
theorem C07_cpu_times_any_bytes (tck : Nat) (htck : 0 < tck) (nf : Nat) (data : Bytes) :
    cpuTimes cfg nf tck data = lineOutcome tck nf (splitWs (firstLine data)) := by
  unfold cpuTimes
  rw [cfg_good.sliceFrom, cfg_good.sliceExtra]
  exact parseCpuValues_eq cfg cfg_good tck htck nf _

/-- **C07_per_cpu_times_any_bytes.** For every content: `cpu_times(percpu=True)` reads the lines
    after the first that start with `cpu`, in order; the first one that cannot be read decides the
    exception and nothing is returned for the lines before it. -/
theorem C07_per_cpu_times_any_bytes (tck : Nat) (htck : 0 < tck) (nf : Nat) (data : Bytes) :
    perCpuTimes cfg nf tck data
      = linesOutcome tck nf (((linesOf data).drop 1).filter (startsWith [99, 112, 117])) := by
  unfold perCpuTimes
  exact parseCpuLines_eq cfg cfg_good tck htck nf _

/-- **C07_valueError_exactly_when.** `cpu_times()` raises ValueError EXACTLY when one of the `nf`
    converted tokens of the first line is not a string of ASCII digits. -/
theorem C07_valueError_exactly_when (tck : Nat) (htck : 0 < tck) (nf : Nat) (data : Bytes) :
    cpuTimes cfg nf tck data = .error .valueError ↔
      ∃ t ∈ counterToks nf (splitWs (firstLine data)), isDigitTok t = false := by
  rw [C07_cpu_times_any_bytes tck htck]
  exact lineOutcome_valueError_iff tck nf _

/-- **C07_typeError_exactly_when.** … and TypeError (`scputimes(*fields)` with too few values) EXACTLY
    when all converted tokens are digit strings but the line has fewer than `nf` of them — a bad
    token wins over a short line. -/
theorem C07_typeError_exactly_when (tck : Nat) (htck : 0 < tck) (nf : Nat) (data : Bytes) :
    cpuTimes cfg nf tck data = .error .typeError ↔
      (∀ t ∈ counterToks nf (splitWs (firstLine data)), isDigitTok t = true) ∧
        (counterToks nf (splitWs (firstLine data))).length < nf := by
  rw [C07_cpu_times_any_bytes tck htck]
  exact lineOutcome_typeError_iff tck nf _

/-- **C07_columns_beyond_ignored.** Tokens after column `nf` (columns a newer kernel appends, or
    rubbish) are never converted: they cannot change the outcome, not even when malformed. -/
theorem C07_columns_beyond_ignored (tck nf : Nat) (values extra : List Bytes)
    (h : nf + 1 ≤ values.length) : lineOutcome tck nf (values ++ extra) = lineOutcome tck nf values := by
  simp only [lineOutcome, counterToks_append nf values extra h]

/-- **C07_per_cpu_ok_exactly_when.** `cpu_times(percpu=True)` returns a list EXACTLY when every line
    after the first that starts with `cpu` is well formed (`nf` digit-string tokens after the label);
    non-`cpu` lines and the first line never matter. -/
theorem C07_per_cpu_ok_exactly_when (tck : Nat) (htck : 0 < tck) (nf : Nat) (data : Bytes) :
    (∃ r, perCpuTimes cfg nf tck data = .ok r) ↔
      ∀ l ∈ (linesOf data).drop 1, startsWith [99, 112, 117] l = true → lineWellFormed nf l = true := by
  rw [C07_per_cpu_times_any_bytes tck htck, linesOutcome_ok_iff]
  simp only [List.mem_filter, and_imp]

/-- **C07_token_classes.** The kernel grammar lies inside the digit strings (where the model reads
    the decimal value, as `float()` does); a FOREIGN token (one with a byte that occurs in no string
    `float()` accepts) is never a digit string — there the model says ValueError, as `float()`
    certainly does. What lies between (`1e3`, `+5`, `nan`, `--1` …) is outside the claim. -/
theorem C07_token_classes (tck : Nat) (htck : 0 < tck) (t : Bytes) :
    (isKernelTok t = true → isDigitTok t = true) ∧
    (isForeignTok t = true → isDigitTok t = false ∧ parseFloatTok cfg tck t = .error .valueError) ∧
    (isDigitTok t = true → parseFloatTok cfg tck t = .ok (((digitVal t : Nat) : Rat) / (tck : Rat))) := by
  refine ⟨kernelTok_digitTok t, ?_, ?_⟩
  · intro h
    have hd := foreignTok_not_digitTok t h
    refine ⟨hd, ?_⟩
    rw [parseFloatTok_eq cfg cfg_good tck htck, hd]
    rfl
  · intro h
    rw [parseFloatTok_eq cfg cfg_good tck htck, h]
    rfl

/-- **C07_foreign_token_raises.** A foreign token among the converted columns of the first line makes
    `cpu_times()` raise ValueError, whatever the rest of the file looks like. -/
theorem C07_foreign_token_raises (tck : Nat) (htck : 0 < tck) (nf : Nat) (data : Bytes) (t : Bytes)
    (ht : t ∈ counterToks nf (splitWs (firstLine data))) (hf : isForeignTok t = true) :
    cpuTimes cfg nf tck data = .error .valueError :=
  (C07_valueError_exactly_when tck htck nf data).mpr ⟨t, ht, foreignTok_not_digitTok t hf⟩

/-- **C07_leading_zeros.** Leading zeros do not change a DIGIT STRING's value (`007` is 7, as for `float()`):
    `0` in front of a digit string is a digit string again (outside the kernel grammar) with the same value.
    (`digitVal` defaults to 0 outside the digit strings, so the equation alone would also hold — for the
    default's sake — for `0x` / `x`; the hypothesis and the first conjunct keep the claim inside the class.) -/
theorem C07_leading_zeros (t : Bytes) (hd : isDigitTok t = true) :
    isDigitTok (48 :: t) = true ∧ isKernelTok (48 :: t) = false ∧ digitVal (48 :: t) = digitVal t := by
  have hne : t ≠ [] := by
    intro h
    subst h
    simp [isDigitTok] at hd
  refine ⟨?_, ?_, digitVal_leading_zero t hne⟩
  · simp only [isDigitTok, List.isEmpty_cons, Bool.not_false, Bool.true_and, List.all_cons] at hd ⊢
    have h48 : isDigit 48 = true := by decide
    simp only [h48, Bool.true_and]
    simp only [Bool.and_eq_true, Bool.not_eq_true'] at hd
    exact hd.2
  · cases t with
    | nil => exact absurd rfl hne
    | cons c cs => simp [isKernelTok]

/-! ## H. a blocking call is a sample like any other -/

/-- **C07_blocking_sample_is_remembered.** After ANY history, a blocking call `b` (interval > 0) leaves
    its SECOND (post-sleep) sample behind as its thread's last sample for that function and variant:
    the thread's next call `c` through the same function/variant is answered exactly as the
    specification says for the remembered sample `t2` — a non-blocking `c` takes ONE read and is
    measured from the end of the blocking interval, not from any older sample. -/
theorem C07_blocking_sample_is_remembered (vlen tck : Nat) (h : List Call) (b c : Call)
    (r0 r1 : Bytes) (rest : List Bytes) (t0 t2 : Stored)
    (hb : b.blocking = true) (hr : b.reads = r0 :: r1 :: rest)
    (h0 : sample ⟨cfg, vlen, tck⟩ b.percpu r0 = .ok t0)
    (h2 : sample ⟨cfg, vlen, tck⟩ b.percpu r1 = .ok t2)
    (hf : c.fam = b.fam) (ht : c.tid = b.tid) :
    (step ⟨cfg, vlen, tck⟩ (runAll ⟨cfg, vlen, tck⟩ St.init (h ++ [b])) c).2
      = expectedRef (sample ⟨cfg, vlen, tck⟩) (calcStored ⟨cfg, vlen, tck⟩) (some t2) c := by
  rw [step_out_ref _ cfg_good.dictsDistinct, runAll_entry _ cfg_good.dictsDistinct, List.foldl_append]
  simp only [List.foldl_cons, List.foldl_nil, hf, ht]
  rw [prevStep_blocking _ b _ r0 r1 rest t0 t2 hb hr h0 h2]

/-- proof obligation on the translator's fact `blockingStores`: in all four branches of
    `cpu_percent` / `cpu_times_percent` the statement `_last_X[tid] = cpu_times(…)` follows the
    `if blocking: … else: …` statement instead of sitting in its `else` branch — the shape `finish`
    transcribes and `C07_blocking_sample_is_remembered` is about; a blocking branch that returns
    without filing its post-sleep sample stops this theorem building -/
theorem cfg_blocking_stores : Gen.C07.blockingStores = true := by decide

/-! ## I. round 3 (audit-driven): what a blocking call does in which ORDER, which clock, which divisor -/

/-- proof obligation on the facts `blockingBodies` / `sleepSites` (audit item 1): in each of the four branches of
    `cpu_percent` / `cpu_times_percent` the `if blocking:` body is exactly "take the first sample, THEN
    `time.sleep(interval)`" (the second sample is the store that follows the `if`, `cfg_blocking_stores`), in
    `Process.cpu_percent` it is "clock, process times, `time.sleep(interval)`, clock, process times"; and these
    five are the only calls of a `sleep` in the three functions. Sleeping BEFORE the first sample, sleeping a
    constant, or an extra sleep elsewhere stops this theorem building. The model has no clock: `Call.reads` /
    `PCall.timer` are what the file / the clock hold at the successive reads, and the harness makes them a
    function of the recorded sleep (the second snapshot is served only after `time.sleep(interval)` was really
    called with the interval) and compares the event order `read, sleep(interval), read` on every call. -/
theorem cfg_blocking_order :
    Gen.C07.blockingBodies =
      [["t1 = cpu_times()", "time.sleep(interval)"],
       ["tot1 = cpu_times(percpu=True)", "time.sleep(interval)"],
       ["t1 = cpu_times()", "time.sleep(interval)"],
       ["tot1 = cpu_times(percpu=True)", "time.sleep(interval)"],
       ["st1 = _timer()", "pt1 = self._proc.cpu_times()", "time.sleep(interval)", "st2 = _timer()",
        "pt2 = self._proc.cpu_times()"]] ∧
    Gen.C07.sleepSites =
      ["cpu_percent: time.sleep(interval)", "cpu_percent: time.sleep(interval)",
       "cpu_times_percent: time.sleep(interval)", "cpu_times_percent: time.sleep(interval)",
       "Process.cpu_percent: time.sleep(interval)"] := by
  constructor <;> decide

/-- proof obligation on the facts `clockTicksDef` / `timerDef` (audit items 3 and 6): the divisor of every
    counter, `_pslinux.CLOCK_TICKS`, is bound exactly once, to `os.sysconf("SC_CLK_TCK")` (the kernel's USER_HZ;
    the harness compares the imported value with the kernel's own AT_CLKTCK on every run and varies the patched
    value per scenario, so `tck` of the theorems is exercised at 1, 100, 250, 300, 1000, 1024), and the wall clock
    of `Process.cpu_percent`, `psutil._timer`, is bound exactly once, to `time.monotonic` (with the `time.time`
    fallback of the `getattr`). A hard-coded 100, `time.process_time` or `time.time` stops this theorem building. -/
theorem cfg_clock_and_timer :
    Gen.C07.clockTicksDef = ["os.sysconf('SC_CLK_TCK')"] ∧
    Gen.C07.timerDef = ["getattr(time, 'monotonic', time.time)"] := by
  constructor <;> decide

/-- proof obligation on the facts `procHandlers` / `procStores` / `shapeMissing` (audit items 5 and 6): the only
    exception `Process.cpu_percent` catches itself is ZeroDivisionError (a vanished process is NOT turned into
    0.0: `C07_proc_vanished_raises`); the two attributes are stored in the first-call branch and after the
    arithmetic, nowhere else (deleting one of the two occurrences changes this list); no fixed statement shape
    is missing. -/
theorem cfg_proc_shape :
    Gen.C07.procHandlers = ["ZeroDivisionError"] ∧
    Gen.C07.procStores =
      ["if not (blocking): if st1 is None or pt1 is None: self._last_sys_cpu_times = st2",
       "if not (blocking): if st1 is None or pt1 is None: self._last_proc_cpu_times = pt2",
       "self._last_sys_cpu_times = st2", "self._last_proc_cpu_times = pt2"] ∧
    Gen.C07.shapeMissing = [] := by
  refine ⟨?_, ?_, ?_⟩ <;> decide

/-- **C07_proc_vanished_raises** (characterisation, beyond the statement). When the process is gone at one of
    the reads of `/proc/<pid>/stat` a call really performs (the only read of a non-blocking call; the read before
    or the read after the sleep of a blocking call) `Process.cpu_percent` raises NoSuchProcess and remembers
    NOTHING: the object's previous sample stays, so by `C07_proc_percent_code` (whose histories include such
    calls) a later successful call is still measured from the last call that did sample. -/
theorem C07_proc_vanished_raises (tck : Nat) (s : PSt) (p : PCall) (hn : p.negative = false)
    (hv : p.vanishes = true) : pstep cfg tck s p = (s, .exc .noSuchProcess) := by
  simp [pstep, hn, hv]

/-- a vanishing call exists in both forms (non-vacuity of `C07_proc_vanished_raises`) -/
example : (⟨0, none, some 2, [1], [], some 0⟩ : PCall).vanishes = true ∧
    (⟨0, some 1, some 2, [1, 2], [(0, 0)], some 1⟩ : PCall).vanishes = true ∧
    (⟨0, none, some 2, [1], [(0, 0)], some 1⟩ : PCall).vanishes = false := by decide

/-! ### non-vacuity of the second extension round -/

/-- a kernel state with CPU 1 offline (lines `cpu0`, `cpu2`, `cpu3`) meets the hypotheses of
    `C07_times_any_numbering` and of `C07_percpu_by_number_partial` -/
example : ∃ w : ProcStatL, w.cpus.map Prod.fst = [0, 2, 3] ∧ (w.cpus.map Prod.fst).Nodup ∧
    (∀ l ∈ w.other, 10 ∉ l) ∧ (∀ l ∈ w.other, startsWith [99, 112, 117] l = false) :=
  ⟨⟨⟨1, 2, 3, 4, 5, 6, 7, 8, 9, 10⟩, [(0, ⟨1, 0, 0, 0, 0, 0, 0, 0, 0, 0⟩), (2, ⟨0, 2, 3, 4, 5, 6, 7, 8, 9, 10⟩),
    (3, ⟨0, 0, 0, 4, 0, 0, 0, 0, 0, 0⟩)], [[98, 116, 105, 109, 101, 32, 49]]⟩, rfl, by decide, by decide, by decide⟩

/-- the three token classes are inhabited: `42` (kernel), `007` (digits, not kernel), `12x` (foreign),
    `1e3` (neither digits nor foreign: outside the claim) -/
example : isKernelTok [52, 50] = true ∧ (isDigitTok [48, 48, 55] = true ∧ isKernelTok [48, 48, 55] = false) ∧
    isForeignTok [49, 50, 120] = true ∧ (isDigitTok [49, 101, 51] = false ∧ isForeignTok [49, 101, 51] = false) := by
  decide

/-- a blocking call with two readable snapshots exists (hypotheses of `C07_blocking_sample_is_remembered`) -/
example : ∃ b : Call, b.blocking = true ∧ ∃ r0 r1 rest, b.reads = r0 :: r1 :: rest :=
  ⟨⟨.percent, 1, some 1, false, [[], []]⟩, by simp [Call.blocking], [], [], [], rfl⟩

/-! ## J. seeded round 5: HOW MANY threads hold a sample at the same time

`St` — the state of the theorems of section D — is a total function `Fam → Tid → Option Stored`: by its very type
it can remember a sample for every thread there is. The code files the samples in four Python objects. Here the
same front ends run over that container (`cstep` over `CSt`: four insertion-ordered dictionaries with the retention
policy `Cfg.storeBound`, a translator fact), so that the population of the dictionaries — how many threads have a
sample filed at the same time — is quantified over explicitly, and a container that forgets is refuted. -/

/-- proof obligation on the facts `lastDictDefs` / `lastDictOtherUses` / `lastStoreBound`: every value ever bound
    to `_last_cpu_times`, `_last_per_cpu_times`, `_last_cpu_times_2`, `_last_per_cpu_times_2` is a dict display
    (`{tid: sample}` in the `try:`, `{}` in its `except Exception:`) or `.copy()` of one — builtin `dict`s —, and
    the module touches these objects in no other way than `X.get(tid)`, `X[tid]`, `X[tid] = …` (no deletion, `pop`,
    `popitem`, `clear`, no length test, no iteration, no alias, no other key): nothing is ever dropped, which is the
    container `cstep` runs on (`storeBound = none`). A dict subclass, an `OrderedDict`/cache with a bound, pruning
    inside `cpu_percent` … stop this theorem building. -/
theorem cfg_store_plain_dict :
    Gen.C07.lastDictDefs =
      ["_last_cpu_times: try: {threading.current_thread().ident: cpu_times()}",
       "_last_cpu_times: except Exception: {}",
       "_last_per_cpu_times: try: {threading.current_thread().ident: cpu_times(percpu=True)}",
       "_last_per_cpu_times: except Exception: {}",
       "_last_cpu_times_2: _last_cpu_times.copy()",
       "_last_per_cpu_times_2: _last_per_cpu_times.copy()"] ∧
    Gen.C07.lastDictOtherUses = [] ∧
    cfg.storeBound = none := by
  refine ⟨?_, ?_, ?_⟩ <;> decide

/-- **C07_own_previous_sample_any_population.** `C07_own_previous_sample` over the container the code really
    files the samples in: after ANY history — any number of distinct threads, so any number of entries held by the
    four dictionaries at the same time — a call returns what the history-defined specification says: it is measured
    against the sample the same thread last took through the same function and variant. -/
theorem C07_own_previous_sample_any_population (vlen tck : Nat) (h : List Call) (c : Call) :
    let e : Env := ⟨cfg, vlen, tck⟩
    (cstep e (crunAll e CSt.init h) c).2 = expected (sample e) (calcStored e) h c := by
  intro e
  have hb : e.cfg.storeBound = none := cfg_store_plain_dict.2.2
  rw [cstep_out, crunAll_view e hb, view_init]
  exact C07_own_previous_sample vlen tck h c

/-- **C07_store_retains_every_thread.** After ANY history every dictionary holds, for EVERY thread, exactly the
    sample the specification remembers for it (`prev`): however many other threads have filed samples since — one
    or ten thousand — none is dropped, replaced or mixed up. -/
theorem C07_store_retains_every_thread (vlen tck : Nat) (h : List Call) (fam : Fam) (tid : Tid) :
    let e : Env := ⟨cfg, vlen, tck⟩
    ((crunAll e CSt.init h).dict fam).get tid = prev (sample e) fam tid h := by
  intro e
  have hb : e.cfg.storeBound = none := cfg_store_plain_dict.2.2
  have hv := congrFun (congrFun (crunAll_view e hb h CSt.init) fam) tid
  rw [view_init, runAll_entry e cfg_good.dictsDistinct] at hv
  exact hv

/-- **C07_since_import_any_population.** The same from the state the module-level code leaves (two dict displays
    with the importing thread's samples and two copies): for any history that follows, with any number of threads. -/
theorem C07_since_import_any_population (vlen tck : Nat) (tid0 : Tid) (r0 r1 : Bytes) (h : List Call) (c : Call) :
    let e : Env := ⟨cfg, vlen, tck⟩
    (cstep e (crunAll e (cimportState e tid0 r0 r1) h) c).2
      = expectedSinceImport (sample e) (calcStored e) tid0 r0 r1 h c := by
  intro e
  have hb : e.cfg.storeBound = none := cfg_store_plain_dict.2.2
  rw [cstep_out, crunAll_view e hb, cimportState_view]
  exact C07_since_import vlen tck tid0 r0 r1 h c

/-- **C07_own_history_only.** What the specification promises a call depends on the earlier calls of the SAME
    thread through the SAME function and variant only: all other calls can be deleted from the history. (The
    statement "each calling thread is measured against its own previous sample" on the side of the specification;
    the driver uses it to answer histories with thousands of threads from the caller's own sub-history.) -/
theorem C07_own_history_only (rd : Bool → Bytes → PRes Stored) (cmp : Fn → Stored → Stored → PRes Val)
    (h : List Call) (c : Call) :
    expected rd cmp h c
      = expected rd cmp (h.filter fun a => decide (a.fam = c.fam ∧ a.tid = c.tid)) c ∧
    ∀ (tid0 : Tid) (r0 r1 : Bytes),
      expectedSinceImport rd cmp tid0 r0 r1 h c
        = expectedSinceImport rd cmp tid0 r0 r1 (h.filter fun a => decide (a.fam = c.fam ∧ a.tid = c.tid)) c := by
  constructor
  · unfold expected prev
    rw [foldl_prevStep_filter]
  · intro tid0 r0 r1
    unfold expectedSinceImport prevFrom
    rw [foldl_prevStep_filter]

/-- the full-strength statement over the container, for a configuration `c0`: for every history and every number
    of threads a call is measured against its own thread's previous sample -/
def C07_own_sample_store_Full (c0 : Cfg) : Prop :=
  ∀ (vlen tck : Nat) (h : List Call) (c : Call),
    (cstep ⟨c0, vlen, tck⟩ (crunAll ⟨c0, vlen, tck⟩ CSt.init h) c).2
      = expected (sample ⟨c0, vlen, tck⟩) (calcStored ⟨c0, vlen, tck⟩) h c

/-- **C07_own_sample_store_code.** The full statement holds of the code as it is (builtin dicts). -/
theorem C07_own_sample_store_code : C07_own_sample_store_Full cfg :=
  fun vlen tck h c => C07_own_previous_sample_any_population vlen tck h c

/-- **C07_bounded_store_counterexample.** For EVERY bound `n ≥ 1`: with a container that holds at most `n`
    entries (dropping the entry filed first when a new key arrives) the statement is FALSE as soon as `n + 1`
    threads poll — whatever else the configuration is, provided `/proc/stat` can be read at all: threads
    `0 … n` each call `cpu_percent()` once; thread 0 then calls again and is answered from two fresh samples
    (TWO reads, 0.0 when nothing moved in between) instead of being measured against its own previous sample
    (ONE read). -/
theorem C07_bounded_store_counterexample (c0 : Cfg) (hd : c0.dictsDistinct = true) (n : Nat) (hn : 1 ≤ n)
    (hb : c0.storeBound = some n) (vlen tck : Nat) (r : Bytes) (v : Stored)
    (hs : sample ⟨c0, vlen, tck⟩ false r = .ok v) (hv : v.truthy = true) :
    ¬ C07_own_sample_store_Full c0 := by
  intro hfull
  let e : Env := ⟨c0, vlen, tck⟩
  have hs' : sample e false r = .ok v := hs
  have h1 := hfull vlen tck ((List.range (n + 1)).map (pollCall r)) (pollCall r 0)
  have hdict : ((crunAll e CSt.init ((List.range (n + 1)).map (pollCall r))).dict fam0).get 0 = none := by
    rw [crunAll_fill e hd n hb r v hs' (n + 1) (Nat.le_refl _)]
    exact fillD_full_get_zero n v hn
  have hL : (cstep e (crunAll e CSt.init ((List.range (n + 1)).map (pollCall r))) (pollCall r 0)).2
      = expectedRef (sample e) (calcStored e) none (pollCall r 0) := by
    rw [cstep_out, step_out_ref e hd]
    show expectedRef _ _ (((crunAll e CSt.init ((List.range (n + 1)).map (pollCall r))).dict fam0).get 0) _ = _
    rw [hdict]
  have hothers : ∀ (l : List Nat) (p : Option Stored),
      (l.map (pollCall r ∘ Nat.succ)).foldl (prevStep (sample e) fam0 0) p = p := by
    intro l
    induction l with
    | nil => intro p; rfl
    | cons a as ih =>
      intro p
      have hp : prevStep (sample e) fam0 0 p ((pollCall r ∘ Nat.succ) a) = p := by
        simp [prevStep, pollCall, Call.fam, fam0]
      simp only [List.map_cons, List.foldl_cons, hp]
      exact ih p
  have hprev : prev (sample e) fam0 0 ((List.range (n + 1)).map (pollCall r)) = some v := by
    have h0 : prevStep (sample e) fam0 0 none (pollCall r 0) = some v := by
      simp [prevStep, taken, pollCall, fam0, Call.fam, Call.negative, Call.blocking, usable, hs', Except.toOption]
    simp only [prev, List.range_succ_eq_map, List.map_cons, List.foldl_cons, List.map_map, h0]
    exact hothers _ _
  have hR : expected (sample e) (calcStored e) ((List.range (n + 1)).map (pollCall r)) (pollCall r 0)
      = expectedRef (sample e) (calcStored e) (some v) (pollCall r 0) := by
    unfold expected
    rw [show (pollCall r 0).fam = fam0 from rfl, show (pollCall r 0).tid = 0 from rfl, hprev]
  rw [hL, hR] at h1
  simp only [expectedRef, pollCall, Call.negative, Call.blocking, usable, hv, hs', Bool.false_eq_true,
    if_false, if_true] at h1
  cases hc : calcStored e .percent v v <;> simp [hc] at h1

/-- **C07_bounded_store_code_counterexample.** In particular for the code as it is with nothing changed but the
    container: for every bound `n ≥ 1`, `{cfg with storeBound := some n}` violates the statement with `n + 1`
    polling threads (the kernel state of `C07_ident_reuse_counterexample` as `/proc/stat`). The bound 64 of a
    "leak-proof" per-thread cache is the instance `n = 64`: 65 threads. -/
theorem C07_bounded_store_code_counterexample (n : Nat) (hn : 1 ≤ n) :
    ¬ C07_own_sample_store_Full { cfg with storeBound := some n } := by
  let w : ProcStat := ⟨⟨1, 2, 3, 4, 5, 6, 7, 8, 9, 10⟩, [], []⟩
  have hnf : nfOf 10 = 10 := by decide
  have hs : sample ⟨cfg, 10, 100⟩ false (renderProcStat 10 w) = .ok (.one (seconds 100 10 w.total)) := by
    simp only [sample, Env.fields, Bool.false_eq_true, if_false]
    rw [C07_times_exact 100 (by decide) 10 10 (by decide) w (by simp [w]), hnf]
  exact C07_bounded_store_counterexample _ cfg_good.dictsDistinct n hn rfl 10 100 (renderProcStat 10 w)
    (.one (seconds 100 10 w.total)) (by rw [sample_sb]; exact hs) (by simp [Stored.truthy, seconds, Ticks.cols])

/-- non-vacuity of the hypotheses of `C07_bounded_store_counterexample` for the parser as it is: a readable
    `/proc/stat` exists (the kernel state of `C07_ident_reuse_counterexample`), and its sample is a usable
    reference -/
example : ∃ (r : Bytes) (v : Stored), sample ⟨cfg, 10, 100⟩ false r = .ok v ∧ v.truthy = true := by
  let w : ProcStat := ⟨⟨1, 2, 3, 4, 5, 6, 7, 8, 9, 10⟩, [], []⟩
  refine ⟨renderProcStat 10 w, .one (seconds 100 10 w.total), ?_, by simp [Stored.truthy, seconds, Ticks.cols]⟩
  have hnf : nfOf 10 = 10 := by decide
  simp only [sample, Env.fields, Bool.false_eq_true, if_false]
  rw [C07_times_exact 100 (by decide) 10 10 (by decide) w (by simp [w]), hnf]

/-- three threads hold a sample at the same time after three first calls (non-vacuity of the population
    dimension: the dictionary of `C07_store_retains_every_thread` has one entry per thread that called) -/
example : (PyDict.setItem (PyDict.setItem (PyDict.setItem [] 7 (.one [1])) 8 (.one [2])) 9 (.one [3])).length = 3 ∧
    PyDict.get (PyDict.setItem (PyDict.setItem (PyDict.setItem [] 7 (.one [1])) 8 (.one [2])) 9 (.one [3])) 7
      = some (.one [1]) ∧
    PyDict.get (PyDict.store (some 2) (PyDict.store (some 2) (PyDict.store (some 2) [] 7 (.one [1])) 8 (.one [2])) 9 (.one [3])) 7
      = none := by decide

end Psutil.C07
