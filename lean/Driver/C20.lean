/- Driver/C20.lean — line-protocol driver for the C20 model (see Base/Proto.lean). -/
import PsutilModel.Base.Proto
import PsutilModel.Model.C20Gen
import PsutilModel.Model.C20Block
import PsutilModel.Spec.C20Block
open Lean Psutil Psutil.Proto Psutil.C20

def parsePlat (s : String) : R Platform :=
  match Platform.ofKey? s with
  | some p => .ok p
  | none => .error s!"bad platform {s}"

def parseFam (s : String) : R Family :=
  match Family.all.find? (·.key == s) with
  | some f => .ok f
  | none => .error s!"bad family {s}"

def parseErrno (s : String) : R Errno :=
  match Errno.all.find? (·.name == s) with
  | some e => .ok e
  | none => .error s!"bad errno {s}"

def parseState (s : String) : R PidState :=
  if s == "gone" then .ok .gone else if s == "zombie" then .ok .zombie
  else if s == "alive" then .ok .alive else .error s!"bad state {s}"

def jErr (e : Err) : List (String × Json) :=
  [("errno", Json.str e.errno.name), ("winerror", jOpt jNat e.winerror)]

def jOutcome : Outcome → Json
  | .nsp pid named => jObj [("k", "nsp"), ("pid", jNat pid), ("named", Json.bool named)]
  | .zombie pid named => jObj [("k", "zombie"), ("pid", jNat pid), ("named", Json.bool named)]
  | .ad pid named => jObj [("k", "ad"), ("pid", jNat pid), ("named", Json.bool named)]
  | .raw e => jObj (("k", Json.str "raw") :: jErr e)
  | .value => jObj [("k", "value")]
  | .unmodelled => jObj [("k", "unmodelled")]

/-- every outcome an implementation could show for this case; the spec keeps the allowed ones -/
def candidates (e : Err) (pid : Nat) : List Outcome :=
  [.value, .nsp pid true, .nsp pid false, .zombie pid true, .zombie pid false, .ad pid true, .ad pid false, .raw e]

/-- (world as the module's probe derives it from the native status code, world the specification
    speaks about). Without a status code (`gone`, `alive`) both are the given state. -/
def envs (p : Platform) (pid : Nat) (state : PidState) (pid0 : Bool) (zcode : Option String) : Env × Env :=
  match state, zcode with
  | .zombie, some c => (probeEnv zcfg p pid (some c) pid0, Spec.docEnv p pid (some c) pid0)
  | _, _ => (⟨pid, state, pid0⟩, ⟨pid, state, pid0⟩)

/-- outcomes outside the specification that finding C20-sunos-aix-exists-means-zombie explains for this
    case (empty outside `Spec.knownZombieDeviation`) -/
def toleratedOutcomes (p : Platform) (e : Err) (env : Env) : List Outcome :=
  if Spec.knownZombieDeviation p.family e env then [.zombie env.pid true] else []

def handleFault (j : Json) : R Json := do
  let p ← strF j "plat" >>= parsePlat
  let meth ← strF j "meth"
  let call ← strF j "call"
  let errno ← strF j "errno" >>= parseErrno
  let winerror ← optF asNat j "winerror"
  let state ← strF j "state" >>= parseState
  let pid ← natF j "pid"
  let pid0 ← boolF j "pid0"
  let persistent ← boolF j "persistent"
  let m ← match methodOf? p meth with
    | some m => pure m
    | none => .error s!"method {meth} is not in the generated method list of {p.key}"
  let e : Err := ⟨errno, winerror⟩
  let zcode ← optF asStr j "zcode"
  let (envM, env) := envs p pid state pid0 zcode
  let (o, sleeps) := methodFault cfg p m call e envM persistent
  let r := Spec.recoverable p meth call
  let allowed := (candidates e pid).filter (Spec.allowed p meth r e env)
  return jObj [
    ("model", jObj [("o", jOutcome o), ("sleeps", jNat sleeps), ("wrapped", Json.bool m.wrapped)]),
    ("spec", jObj [("cell", jOutcome (Spec.contract p.family e env)), ("allowed", jList jOutcome allowed),
                   ("tolerated", jList jOutcome (toleratedOutcomes p e env)),
                   ("retries", jNat (if p == .windows && Spec.retriesPartialCopy meth
                                        && winerror == some Spec.partialCopyCode then Spec.partialCopyRetries else 0))])]

/-- a faulted call preceded by a history of calls inside one `oneshot()` block (seeded round 5, C20-8) -/
def handleBlock (j : Json) : R Json := do
  let p ← strF j "plat" >>= parsePlat
  let meth ← strF j "meth"
  let call ← strF j "call"
  let errno ← strF j "errno" >>= parseErrno
  let winerror ← optF asNat j "winerror"
  let state ← strF j "state" >>= parseState
  let pid ← natF j "pid"
  let pid0 ← boolF j "pid0"
  let exited ← boolF j "exited"
  let h ← listF (fun x => do
    let r ← boolF x "reads"
    let st ← strF x "state" >>= parseState
    pure (Earlier.mk r st)) j "history"
  let m ← match methodOf? p meth with
    | some m => pure m
    | none => .error s!"method {meth} is not in the generated method list of {p.key}"
  let e : Err := ⟨errno, winerror⟩
  let zcode ← optF asStr j "zcode"
  let (envM, env) := envs p pid state pid0 zcode
  let (o, sleeps) := blockFault cfg probeFreshOf p m call e h exited envM false
  let r := Spec.recoverable p meth call
  let past := h.map fun x => Spec.Past.mk x.state
  let allowed := (candidates e pid).filter (Spec.allowedInBlock p meth r e past exited env)
  return jObj [
    ("model", jObj [("o", jOutcome o), ("sleeps", jNat sleeps), ("wrapped", Json.bool m.wrapped),
                    ("probeFresh", Json.bool (probeFreshOf p.family))]),
    ("spec", jObj [("cell", jOutcome (Spec.contract p.family e env)), ("allowed", jList jOutcome allowed),
                   ("tolerated", jList jOutcome (toleratedOutcomes p e env)), ("retries", jNat 0)])]

def jAfter : After → Json
  | .ended o s => jObj [("k", "ended"), ("o", jOutcome o), ("sleeps", jNat s)]
  | .goesOn .fallback s => jObj [("k", "fallback"), ("sleeps", jNat s)]
  | .goesOn .rerun s => jObj [("k", "rerun"), ("sleeps", jNat s)]

/-- two faulted native calls: `call1` raises `e1`, a later `call2` raises `e2` -/
def handleFault2 (j : Json) : R Json := do
  let p ← strF j "plat" >>= parsePlat
  let meth ← strF j "meth"
  let call1 ← strF j "call"
  let errno1 ← strF j "errno" >>= parseErrno
  let win1 ← optF asNat j "winerror"
  let call2 ← strF j "call2"
  let errno2 ← strF j "errno2" >>= parseErrno
  let win2 ← optF asNat j "winerror2"
  let state ← strF j "state" >>= parseState
  let pid ← natF j "pid"
  let pid0 ← boolF j "pid0"
  let m ← match methodOf? p meth with
    | some m => pure m
    | none => .error s!"method {meth} is not in the generated method list of {p.key}"
  let e1 : Err := ⟨errno1, win1⟩
  let e2 : Err := ⟨errno2, win2⟩
  let zcode ← optF asStr j "zcode"
  let (envM, env) := envs p pid state pid0 zcode
  let (o, sleeps) := methodFault2 cfg p m call1 e1 call2 e2 envM
  let allowed := (candidates e2 pid).filter (Spec.allowed2 p meth call1 e1 call2 e2 env)
  return jObj [
    ("model", jObj [("o", jOutcome o), ("sleeps", jNat sleeps), ("wrapped", Json.bool m.wrapped),
                    ("first", jAfter (afterFirst cfg p m call1 e1 envM))]),
    ("spec", jObj [("cell", jOutcome (Spec.contract p.family e2 env)), ("allowed", jList jOutcome allowed),
                   ("tolerated", jList jOutcome (toleratedOutcomes p e2 env)),
                   ("retries", jNat 0)])]

/-- "map.slot[*k]" → (map, slot index, multiplier) through the generated slot maps -/
def resolve (f : Family) (src : String) : Json :=
  let parts := src.splitOn "*"
  let mul : Nat := match parts with
    | [_, k] => k.toNat?.getD 0
    | _ => 1
  match sourceIndex f src with
  | some (mp, i) => jObj [("map", Json.str mp), ("idx", jNat i), ("mul", jNat mul)]
  | none => Json.null

/-- the specification's reading of "map.slot[*k]": the position at which the native layer of
    platform `p` (its C source) puts the value labelled with the slot's name — independent of
    the index the Python map gives the slot -/
def resolveSpec (p : Platform) (src : String) : Json :=
  let parts := src.splitOn "*"
  let mul : Nat := match parts with
    | [_, k] => k.toNat?.getD 0
    | _ => 1
  match (parts.head?.getD "").splitOn "." with
  | [mp, slot] =>
    let key := p.family.key ++ "." ++ mp
    let labels := (Gen.C20.nativeSlotLabels.lookup (key, p.key)).getD []
    let want := (((Spec.slotLabel.lookup key).getD []).lookup slot).getD []
    match labels.findIdx? (fun l => want.contains l) with
    | some i => jObj [("map", Json.str mp), ("idx", jNat i), ("mul", jNat mul)]
    | none => Json.null
  | _ => Json.null

def jRows (slot : String → Json) (rows : List (String × String × String × String)) (meth : String) : Json :=
  jList (fun q => jObj [("nt", Json.str q.2.1), ("field", Json.str q.2.2.1), ("src", Json.str q.2.2.2),
                        ("slot", slot q.2.2.2)])
    (rows.filter fun q => q.1 == meth)

def handleRecord (j : Json) : R Json := do
  let p ← strF j "plat" >>= parsePlat
  let f := p.family
  let meth ← strF j "method"
  return jObj [
    ("model", jRows (resolve f) (feedsOf f) meth),
    ("spec", jRows (resolveSpec p) ((Spec.slotNamedFor.lookup f.key).getD []) meth)]

def parseAddrFam (s : String) : R AddrFam :=
  if s == "inet" then .ok .inet else if s == "inet6" then .ok .inet6
  else if s == "link" then .ok .link else if s == "other" then .ok .other else .error s!"bad family {s}"

/-- the broadcast address read off the specification's bit-wise definition -/
def specBroadcastW (width a n : Nat) : Nat :=
  (List.range width).foldl (fun acc i => if i < width - n || a.testBit i then acc + 2 ^ i else acc) 0
def specBroadcast (a n : Nat) : Nat := specBroadcastW 32 a n

def handleNetif (j : Json) : R Json := do
  let windows ← boolF j "windows"
  let fam ← strF j "fam" >>= parseAddrFam
  let mac ← strF j "mac"
  let ip ← natF j "ip"
  let plen ← optF asNat j "plen"
  let bcast ← optF asNat j "bcast"
  let r : RawAddr := ⟨fam, mac.toList, ip, plen, bcast⟩
  let o := netIfAddrsEntry cfg windows r
  let sep := if windows then '-' else ':'
  let specMac := if fam == .link then Spec.macPadded sep mac.toList else mac.toList
  let specB : Option Nat :=
    if windows && fam == .inet then
      match plen with
      | some n => if n ≤ 32 then some (specBroadcast ip n) else bcast
      | none => bcast
    else if windows && fam == .inet6 then
      match plen with
      | some n => if n ≤ 128 then some (specBroadcastW 128 ip n) else bcast
      | none => bcast
    else bcast
  return jObj [
    ("model", jObj [("mac", Json.str (String.ofList o.mac)), ("bcast", jOpt jNat o.bcast)]),
    ("spec", jObj [("mac", Json.str (String.ofList specMac)), ("bcast", jOpt jNat specB)])]

/-- what the statement expects of ONE record, read off the specification (MAC completed; on Windows
    the bit-wise broadcast address when the netmask is a prefix of the family's width; else as handed back) -/
def specRecord (windows : Bool) (r : RawAddr) : List Char × Option Nat :=
  let sep := if windows then '-' else ':'
  let specMac := if r.fam == .link then Spec.macPadded sep r.mac else r.mac
  let specB : Option Nat :=
    if windows && r.fam == .inet then
      match r.plen with
      | some n => if n ≤ 32 then some (specBroadcast r.ip n) else r.bcast
      | none => r.bcast
    else if windows && r.fam == .inet6 then
      match r.plen with
      | some n => if n ≤ 128 then some (specBroadcastW 128 r.ip n) else r.bcast
      | none => r.bcast
    else r.bcast
  (specMac, specB)

def famTag : AddrFam → String
  | .inet => "inet" | .inet6 => "inet6" | .link => "link" | .other => "other"

def parseRaw (j : Json) : R (Nat × RawAddr) := do
  let nic ← natF j "nic"
  let fam ← strF j "fam" >>= parseAddrFam
  let mac ← strF j "mac"
  let ip ← natF j "ip"
  let plen ← optF asNat j "plen"
  let bcast ← optF asNat j "bcast"
  return (nic, ⟨fam, mac.toList, ip, plen, bcast⟩)

/-- one call of `net_if_addrs()` on a whole native answer: the model's appended pairs in order, and
    per native record (input order) what the specification expects of it on its own -/
def handleNetifs (j : Json) : R Json := do
  let windows ← boolF j "windows"
  let kLink ← natF j "key_link"
  let kInet ← natF j "key_inet"
  let kInet6 ← natF j "key_inet6"
  let key : AddrFam → Nat := fun f => match f with
    | .link => kLink | .inet => kInet | .inet6 => kInet6 | .other => 1000000
  let rs ← listF parseRaw j "recs"
  let out := netIfAddrs cfg windows key rs
  let jRec (nic : Nat) (fam : AddrFam) (mac : List Char) (ip : Nat) (b : Option Nat) : Json :=
    jObj [("nic", jNat nic), ("fam", Json.str (famTag fam)), ("mac", Json.str (String.ofList mac)),
          ("ip", jNat ip), ("bcast", jOpt jNat b)]
  return jObj [
    ("model", jList (fun o => jRec o.1 o.2.fam o.2.mac o.2.ip o.2.bcast) out),
    ("spec", jList (fun x => let s := specRecord windows x.2; jRec x.1 x.2.fam s.1 x.2.ip s.2) rs)]

/-- the other platform-conditional branches of the front end: model value and documented value -/
def handleFront (j : Json) : R Json := do
  let fn ← strF j "fn"
  let windows ← boolF j "windows"
  let posix ← boolF j "posix"
  if fn == "ppid" then
    let cached ← optF asNat j "cached"
    let native ← natF j "native"
    let r := frontPpid posix cached native
    return jObj [("model", jObj [("ret", jNat r.1), ("cache", jOpt jNat r.2)]),
                 ("spec", jObj [("ret", jNat (Spec.ppidExpected posix cached native))])]
  else if fn == "name" then
    let cached ← optF asStr j "cached"
    let native ← strF j "native"
    let argv ← optF (asList asStr) j "argv"
    let cmd : CmdlineRes := match argv with | some a => .ok a | none => .swallowed
    return jObj [("model", jObj [("ret", Json.str (frontName windows posix cached native cmd))]),
                 ("spec", jObj [("ret", Json.str (Spec.nameExpected windows posix cached native argv))])]
  else if fn == "username" then
    let uid ← natF j "uid"
    let pw ← optF asStr j "pw"
    let native ← strF j "native"
    return jObj [("model", jObj [("ret", Json.str (frontUsername posix uid pw native))]),
                 ("spec", jObj [("ret", Json.str (Spec.usernameExpected posix uid pw native))])]
  else if fn == "pid_exists" then
    let pid ← intF j "pid"
    let pids ← listF asNat j "pids"
    let native ← boolF j "native"
    return jObj [("model", jObj [("ret", Json.bool (frontPidExists posix pid pids native))]),
                 ("spec", jObj [("ret", Json.bool (Spec.pidExistsExpected posix pid pids native))])]
  else if fn == "affinity" then
    let ncpu ← natF j "ncpu"
    let cpus ← listF asNat j "cpus"
    let r := frontAffinityArg false ncpu cpus
    let want := if cpus.isEmpty then List.range ncpu else (List.range 1024).filter (cpus.contains ·)
    return jObj [("model", jObj [("ret", jList jNat ((List.range 1024).filter (r.contains ·)))]),
                 ("spec", jObj [("ret", jList jNat want)])]
  else if fn == "disk" then
    let perdisk ← boolF j "perdisk"
    let rows ← listF (asList asNat) j "rows"
    let kw := frontDiskKwargs false perdisk
    let width := (rows.head?.map List.length).getD 0
    let specTotal := (List.range width).map fun i => (rows.map fun r => r.getD i 0).foldl (· + ·) 0
    return jObj [("model", jObj [("kwargs", jList (fun q => Json.str q.1) kw), ("cache", Json.str (frontDiskCacheName perdisk)),
                                 ("total", jList jNat (frontDiskTotal rows))]),
                 ("spec", jObj [("kwargs", jList Json.str []),
                                ("cache", Json.str (if perdisk then "psutil.disk_io_counters.perdisk" else "psutil.disk_io_counters")),
                                ("total", jList jNat specTotal)])]
  else .error s!"unknown front function {fn}"

def jInitRes : InitRes → Json
  | .built ic cc g => jObj [("k", "built"), ("ident", jOpt jNat ic), ("cache", jOpt jNat cc), ("gone", Json.bool g)]
  | .raisesNsp => jObj [("k", "nsp-not-found")]
  | .raisesOther e => jObj (("k", Json.str "raw") :: jErr e)
  | .unmodelled => jObj [("k", "unmodelled")]

def jSigRes : SigRes → Json
  | .sent => jObj [("k", "sent")]
  | .valueError => jObj [("k", "ValueError")]
  | .nsp n => jObj [("k", "nsp"), ("named", Json.bool n)]
  | .zombie n => jObj [("k", "zombie"), ("named", Json.bool n)]
  | .ad n => jObj [("k", "ad"), ("named", Json.bool n)]
  | .raw e => jObj (("k", Json.str "raw") :: jErr e)

def jWinAct : WinSigAct → Json
  | .procKill => Json.str "proc_kill"
  | .osKill => Json.str "os.kill"
  | .valueError => Json.str "ValueError"
  | .nspNotRunning => Json.str "nsp-not-running"

def parseWinSig (s : String) : R WinSig :=
  if s == "SIGTERM" then .ok .sigterm else if s == "CTRL_C_EVENT" then .ok .ctrlC
  else if s == "CTRL_BREAK_EVENT" then .ok .ctrlBreak else if s == "other" then .ok .otherSig
  else .error s!"bad signal {s}"

def parseIdentPair (j : Json) : R (Nat × Option Nat) := do
  let pid ← natF j "pid"
  let ct ← optF asNat j "ctime"
  return (pid, ct)

/-- round 2: identity, equality, signals -/
def handleFront2 (j : Json) : R Json := do
  let fn ← strF j "fn"
  if fn == "ident" then
    let p ← strF j "plat" >>= parsePlat
    let ign ← boolF j "ignore"
    let ct ← natF j "ct"
    let call ← optF asStr j "call"
    match call with
    | none =>
      return jObj [("model", jInitRes (frontInit ign ct .value)), ("spec", jInitRes (.built (some ct) (some ct) false))]
    | some call =>
      let errno ← strF j "errno" >>= parseErrno
      let winerror ← optF asNat j "winerror"
      let state ← strF j "state" >>= parseState
      let pid ← natF j "pid"
      let pid0 ← boolF j "pid0"
      let zcode ← optF asStr j "zcode"
      let m ← match methodOf? p "create_time" with
        | some m => pure m
        | none => .error s!"create_time is not in the generated method list of {p.key}"
      let e : Err := ⟨errno, winerror⟩
      let (envM, env) := envs p pid state pid0 zcode
      return jObj [("model", jInitRes (frontInit ign ct (identFault cfg p m call e envM))),
                   ("spec", jInitRes (Spec.initExpected p e env ign)),
                   ("also", jList jInitRes (Spec.initAlso p call env)),
                   ("tolerated", jList jInitRes (if Spec.knownZombieDeviation p.family e env then [.built none none false] else []))]
  else if fn == "eq" then
    let obn ← boolF j "obn"
    let i1 ← field j "i1" >>= parseIdentPair
    let i2 ← field j "i2" >>= parseIdentPair
    let sts ← strF j "st"
    let st ← (if sts == "zombie" then pure (StatusRes.status true) else if sts == "running" then pure (StatusRes.status false)
              else if sts == "zombieExc" then pure StatusRes.zombieExc else if sts == "error" then pure StatusRes.error
              else .error s!"bad status result {sts}")
    return jObj [("model", jObj [("ret", Json.bool (frontEq obn i1 i2 st))]),
                 ("spec", jObj [("ret", Json.bool (Spec.eqExpected obn i1 i2 (Spec.zombieNow st)))])]
  else if fn == "sigposix" then
    let openbsd ← boolF j "openbsd"
    let pid ← natF j "pid"
    let ex ← boolF j "exists"
    let ks ← strF j "kill"
    let k ← (if ks == "ok" then pure KillRes.ok else do
               let en ← parseErrno ks
               pure (KillRes.ofErr ⟨en, none⟩))
    let r := frontSendSignalPosix openbsd pid k ex
    return jObj [("model", jObj [("res", jSigRes r.1), ("gone", Json.bool r.2)]),
                 ("spec", jObj [("res", jSigRes (Spec.sendSignalPosixExpected openbsd pid k ex))])]
  else if fn == "sigwin" then
    let via ← strF j "via"
    let running ← boolF j "running"
    let sig ← strF j "sig" >>= parseWinSig
    let act := if via == "send_signal" then frontSendSignalWin sig running
               else if via == "terminate" then frontTerminateWin else frontKillWin
    let want := if via == "send_signal" then Spec.sendSignalWinExpected sig running else frontKillWin
    let platMeth := if via == "send_signal" then "send_signal" else "kill"
    let errno ← optF asStr j "errno"
    match errno, act.native? with
    | some en, some call =>
      let errno ← parseErrno en
      let winerror ← optF asNat j "winerror"
      let state ← strF j "state" >>= parseState
      let pid ← natF j "pid"
      let m ← match methodOf? .windows platMeth with
        | some m => pure m
        | none => .error s!"{platMeth} is not in the generated method list of windows"
      let e : Err := ⟨errno, winerror⟩
      let env : Env := ⟨pid, state, true⟩
      return jObj [("model", jObj [("act", jWinAct act), ("o", jOutcome (methodFault cfg .windows m call e env false).1)]),
                   ("spec", jObj [("act", jWinAct want), ("o", jOutcome (Spec.contract .windows e env))])]
    | _, _ =>
      return jObj [("model", jObj [("act", jWinAct act)]), ("spec", jObj [("act", jWinAct want)])]
  else .error s!"unknown front2 function {fn}"

def handleApiFields (j : Json) : R Json := do
  let p ← strF j "plat" >>= parsePlat
  let jRow := fun (r : String × String × Bool × List String) =>
    jObj [("api", Json.str r.1), ("nt", Json.str r.2.1), ("ordered", Json.bool r.2.2.1), ("fields", jList Json.str r.2.2.2),
          ("gaps", jList Json.str (r.2.2.2.filter fun f => Spec.fieldGaps.contains (p.key, r.1, f)))]
  return jObj [
    ("documented", jList jRow (docFieldsOf p)),
    ("actual", jList (fun (q : String × List String) => jObj [("nt", Json.str q.1), ("fields", jList Json.str q.2)])
                 ((Gen.C20.actualFields.lookup p.key).getD []))]

def handleApi (j : Json) : R Json := do
  let p ← strF j "plat" >>= parsePlat
  return jObj [
    ("documented", jList Json.str ((Gen.C20.documented.lookup p.key).getD [])),
    ("exposed", jList Json.str ((Gen.C20.exposed.lookup p.key).getD []))]

def handle (_ : Unit) (j : Json) : R (Unit × Json) := do
  let op ← strF j "op"
  let r ← (
    if op == "fault" then handleFault j
    else if op == "fault2" then handleFault2 j
    else if op == "block" then handleBlock j
    else if op == "record" then handleRecord j
    else if op == "netif" then handleNetif j
    else if op == "netifs" then handleNetifs j
    else if op == "api" then handleApi j
    else if op == "front" then handleFront j
    else if op == "front2" then handleFront2 j
    else if op == "apifields" then handleApiFields j
    else .error s!"unknown op {op}")
  return ((), r)

def main : IO Unit := Proto.run () (total handle)
