/- Driver/C13.lean — line-protocol driver for the C13 model (see Base/Proto.lean).

   op "case": a process given as records (statm, mappings, …). The driver renders the three
              procfs files with the kernel-side renderers of Spec/C13.lean (so implementation
              and model read byte-identical content) and prints model(x) and spec(x).
   op "raw" : arbitrary file contents (malformed / adversarial); model only. -/
import PsutilModel.Base.Proto
import PsutilModel.Model.C13Gen
import PsutilModel.Spec.C13
open Lean Psutil Psutil.Proto Psutil.C13 Psutil.C13.Spec

def excName : Exc → String
  | .valueError => "ValueError"
  | .indexError => "IndexError"
  | .attributeError => "AttributeError"
  | .zombieProcess => "ZombieProcess"
  | .noSuchProcess => "NoSuchProcess"
  | .accessDenied => "AccessDenied"
  | .fileNotFound => "FileNotFoundError"
  | .keyError => "KeyError"

def jRes (f : α → Json) : Res α → Json
  | .ok a => jObj [("ok", f a)]
  | .error e => jObj [("exc", Json.str (excName e))]

def jRow (r : Row) : Json :=
  Json.arr #[jBytes r.addr, jBytes r.perms, jBytes r.path, jList jNat r.nums]

def jGRow (g : GRow) : Json := Json.arr #[jBytes g.1, jList jNat g.2]

def parseKV (j : Json) : R KV :=
  match j.getArr? with
  | .ok #[k, v, b] => do pure ⟨← asBytes k, ← asNat v, ← asBool b⟩
  | _ => .error "kv must be [keyhex, val, kb]"

def parseMapping (j : Json) : R Mapping := do
  pure { lo := ← natF j "lo", hi := ← natF j "hi", r := ← boolF j "r", w := ← boolF j "w",
         x := ← boolF j "x", shared := ← boolF j "s", off := ← natF j "off", maj := ← natF j "maj",
         min := ← natF j "min", ino := ← natF j "ino", path := ← optF asBytes j "path",
         deleted := ← boolF j "deleted", kv := ← listF parseKV j "kv",
         flags := ← optF (asList asBytes) j "flags" }

def parseProbeVal (s : String) : R Probe :=
  if s == "present" then .ok .present else if s == "missing" then .ok .missing
  else if s == "denied" then .ok .denied else .error s!"bad probe {s}"

def parseProbe (j : Json) : R (Bytes → Probe) := do
  let tbl ← asList (fun e => match e.getArr? with
    | .ok #[k, v] => do pure (← asBytes k, ← asStr v >>= parseProbeVal)
    | _ => .error "probe entry must be [pathhex, state]") j
  pure fun p => (tbl.lookup p).getD .missing

structure Pct where
  memtype : String
  cached : Option Int
  vmTotal : Int

def parsePct (j : Json) : R Pct := do
  pure ⟨← strF j "memtype", ← optF asInt j "cached", ← intF j "vmTotal"⟩

def parseRollupMode (s : String) (b : Bytes) : R FileRes :=
  if s == "data" then .ok (.data b) else if s == "enoent" then .ok .enoent
  else if s == "esrch" then .ok .esrch else .error s!"bad rollup mode {s}"

/-- everything the model computes from the three file contents -/
def modelAll (probe : Bytes → Probe) (zombie hasRollup : Bool) (pagesize : Nat) (rollup : FileRes)
    (smaps statm : Bytes) (pcts : List Pct) : List (String × Json) :=
  let info := memoryInfo cfg pagesize statm
  let full := memoryFullInfo cfg hasRollup pagesize rollup smaps statm
  let maps := memoryMaps cfg probe zombie smaps
  let grp : Res (List GRow) := match maps with
    | .ok rows => .ok (grouped rows)
    | .error e => .error e
  [("info", jRes (jList jNat) info), ("full", jRes (jList jNat) full),
   ("maps", jRes (jList jRow) maps), ("grouped", jRes (jList jGRow) grp),
   ("pct", jList (fun p => jRes jRat (memoryPercent cfg p.memtype info full p.cached p.vmTotal)) pcts)]

def specPct (pagesize : Nat) (st : Statm) (ms : List Mapping) (p : Pct) : Json :=
  let total : Int := match p.cached with
    | some t => if t = 0 then p.vmTotal else t
    | none => p.vmTotal
  match (pfullmemNames.zip (specFullInfo pagesize st ms)).lookup p.memtype with
  | none => jObj [("exc", Json.str "ValueError")]
  | some v => if total > 0 then jObj [("ok", jRat (specPercent v total))] else Json.null

def handle (_ : Unit) (j : Json) : R (Unit × Json) := do
  let op ← strF j "op"
  let pagesize ← natF j "pagesize"
  let zombie ← boolF j "zombie"
  let hasRollup ← boolF j "hasRollup"
  let probe ← field j "probe" >>= parseProbe
  let pcts ← listF parsePct j "pct"
  let mode ← strF j "rollup"
  if op == "raw" then
    let smaps ← bytesF j "smaps"
    let statm ← bytesF j "statm"
    let rb ← bytesF j "rollupData"
    let rollup ← parseRollupMode mode rb
    return ((), jObj [("model", jObj (modelAll probe zombie hasRollup pagesize rollup smaps statm pcts))])
  else if op == "case" then
    let ms ← listF parseMapping j "ms"
    let cols ← listF asNat j "statm"
    let st : Statm ← match cols with
      | [a, b, c, d, e, f, g] => pure (⟨a, b, c, d, e, f, g⟩ : Statm)
      | _ => .error "statm must have 7 columns"
    let smaps := renderSmaps ms
    let statm := renderStatm st
    let rb := renderRollup (rollupKeysOf ms) ms
    let rollup ← parseRollupMode mode rb
    -- the full domain of the property (names ending in blanks included), whatever the code does
    let wf := wfSmaps false ms && ms.all (fsConsistent probe)
    let rows := ms.map specRow
    -- the spec speaks about well-formed kernel content; empty smaps: [] / ZombieProcess
    let specMaps : Json :=
      if ms.isEmpty then (if zombie then jObj [("exc", Json.str "ZombieProcess")] else jObj [("ok", jList jRow [])])
      else if wf then jObj [("ok", jList jRow rows)] else Json.null
    let specGrp : Json :=
      if ms.isEmpty then (if zombie then jObj [("exc", Json.str "ZombieProcess")] else jObj [("ok", jList jGRow [])])
      else if wf then jObj [("ok", jList jGRow (specGrouped rowKeys.length rows))] else Json.null
    let fullOk := ms.isEmpty || wf
    let spec := jObj [
      ("info", jObj [("ok", jList jNat (specMemInfo pagesize st))]),
      ("full", if fullOk then jObj [("ok", jList jNat (specFullInfo pagesize st ms))] else Json.null),
      ("maps", specMaps), ("grouped", specGrp),
      ("pct", jList (fun p => if fullOk then specPct pagesize st ms p else Json.null) pcts)]
    return ((), jObj [
      ("files", jObj [("smaps", jBytes smaps), ("statm", jBytes statm), ("rollup", jBytes rb)]),
      ("wf", Json.bool wf),
      ("model", jObj (modelAll probe zombie hasRollup pagesize rollup smaps statm pcts)),
      ("spec", spec)])
  else .error s!"unknown op {op}"

def main : IO Unit := Proto.run () (total handle)
