/- Driver/C13.lean — line-protocol driver for the C13 model (see Base/Proto.lean).

   op "case": a process given as records (statm, mappings, …). The driver renders the three
              procfs files with the kernel-side renderers of Spec/C13.lean (so implementation
              and model read byte-identical content) and prints model(x) and spec(x).
   op "raw" : arbitrary file contents (malformed / adversarial); model only.
   optional "hist" (both ops): a history of /proc/meminfo contents, `virtual_memory()` and
              `memory_percent(t)` calls starting from an empty `_TOTAL_PHYMEM`; the driver threads
              the model state (Model/C13Pct.lean) and prints, per step, the model's answer, the
              answer relative to the total psutil LAST READ computed from the records (spec,
              C13_percent_last_read) and, informationally, whether that total is not the current one. -/
import PsutilModel.Base.Proto
import PsutilModel.Model.C13Gen
import PsutilModel.Spec.C13Bind
import PsutilModel.Spec.C13
open Lean Psutil Psutil.Proto Psutil.C13 Psutil.C13.Spec

def excName : Exc → String
  | .valueError => "ValueError"
  | .indexError => "IndexError"
  | .attributeError => "AttributeError"
  | .zombieProcess => "ZombieProcess"
  | .noSuchProcess => "NoSuchProcess"
  | .accessDenied => "AccessDenied"
  | .fileNotFound => "FileNotFoundError"
  | .keyError => "KeyError"
  | .typeError => "TypeError"

def jRes (f : α → Json) : Res α → Json
  | .ok a => jObj [("ok", f a)]
  | .error e => jObj [("exc", Json.str (excName e))]

def jRow (r : Row) : Json :=
  Json.arr #[jBytes r.addr, jBytes r.perms, jBytes r.path, jList jNat r.nums]

def jGRow (g : GRow) : Json := Json.arr #[jBytes g.1, jList jNat g.2]

def parseKV (j : Json) : R KV :=
  match j.getArr? with
  | .ok #[k, v, b] => do pure ⟨← asBytes k, ← asNat v, ← asBool b⟩
  | _ => .error "kv must be [keyhex, val, kb]"

def parseMapping (j : Json) : R Mapping := do
  pure { lo := ← natF j "lo", hi := ← natF j "hi", r := ← boolF j "r", w := ← boolF j "w",
         x := ← boolF j "x", shared := ← boolF j "s", off := ← natF j "off", maj := ← natF j "maj",
         min := ← natF j "min", ino := ← natF j "ino", path := ← optF asBytes j "path",
         deleted := ← boolF j "deleted", kv := ← listF parseKV j "kv",
         flags := ← optF (asList asBytes) j "flags" }

def parseProbeVal (s : String) : R Probe :=
  if s == "present" then .ok .present else if s == "missing" then .ok .missing
  else if s == "denied" then .ok .denied else .error s!"bad probe {s}"

def parseProbe (j : Json) : R (Bytes → Probe) := do
  let tbl ← asList (fun e => match e.getArr? with
    | .ok #[k, v] => do pure (← asBytes k, ← asStr v >>= parseProbeVal)
    | _ => .error "probe entry must be [pathhex, state]") j
  pure fun p => (tbl.lookup p).getD .missing

structure Pct where
  memtype : String
  cached : Option Int
  vmTotal : Int

def parsePct (j : Json) : R Pct := do
  pure ⟨← strF j "memtype", ← optF asInt j "cached", ← intF j "vmTotal"⟩

def parseRollupMode (s : String) (b : Bytes) : R FileRes :=
  if s == "data" then .ok (.data b) else if s == "enoent" then .ok .enoent
  else if s == "esrch" then .ok .esrch else .error s!"bad rollup mode {s}"

/-- everything the model computes from the three file contents -/
def modelAll (probe : Bytes → Probe) (zombie hasRollup : Bool) (pagesize : Nat) (rollup : FileRes)
    (smaps statm : Bytes) (pcts : List Pct) : List (String × Json) :=
  let info := memoryInfo cfg pagesize statm
  let full := memoryFullInfo cfg hasRollup pagesize rollup smaps statm
  let maps := memoryMaps cfg probe zombie smaps
  let grp : Res (List GRow) := match maps with
    | .ok rows => .ok (grouped rows)
    | .error e => .error e
  [("info", jRes (jList jNat) info), ("full", jRes (jList jNat) full),
   ("maps", jRes (jList jRow) maps), ("grouped", jRes (jList jGRow) grp),
   ("pct", jList (fun p => jRes jRat (memoryPercent cfg p.memtype info full p.cached p.vmTotal)) pcts)]

/-- `_parse_smaps` as written (findall over the whole text) and its line-anchored reading, side by
    side (informational: the harness counts the inputs on which they differ) -/
def readings (smaps : Bytes) : Json :=
  let jF (f : Full) : Json := jList jNat [f.uss, f.pss, f.swap]
  jObj [("regex", jRes jF (parseSmaps cfg smaps)), ("lines", jF (parseSmapsLines cfg smaps))]

def specPct (fullVals : List Nat) (p : Pct) : Json :=
  let total : Int := match p.cached with
    | some t => if t = 0 then p.vmTotal else t
    | none => p.vmTotal
  match (pfullmemNames.zip fullVals).lookup p.memtype with
  | none => jObj [("exc", Json.str "ValueError")]
  | some v => if total > 0 then jObj [("ok", jRat (specPercent v total))] else Json.null


/-! ### histories of the total-memory cache -/

inductive HStep
  | meminfoKV (ls : List KV)
  | meminfoRaw (b : Bytes)
  | vm
  | pct (memtype : String)

def parseHStep (j : Json) : R HStep := do
  let op ← strF j "op"
  if op == "meminfo" then return .meminfoKV (← listF parseKV j "kv")
  else if op == "meminfoRaw" then return .meminfoRaw (← bytesF j "data")
  else if op == "vm" then return .vm
  else if op == "pct" then return .pct (← strF j "memtype")
  else .error s!"bad hist op {op}"

/-- current `/proc/meminfo`: the records (when it was rendered from records) and the bytes -/
structure MI where
  recs : Option (List KV)
  bytes : Bytes

def specTotal (mi : MI) : Option Nat :=
  match mi.recs with
  | some ls => if wfMeminfo ls then some (memTotal ls) else none
  | none => none

/-- spec side of a history: the total psutil read last, computed from the RECORDS (not by the
    model): `known none` = nothing read yet, `unknown` = a read happened on content outside the
    spec's domain (raw / ill-formed meminfo, or process files outside the domain) -/
inductive Last
  | known (t : Option Nat)
  | unknown

/-- one step: (answers, meminfo, model state, spec state). Spec (C13_percent_last_read):
    memory_percent(t) = 100 * field / (the total psutil last read: by the latest virtual_memory(),
    or by the first memory_percent() when none was made; 0 is re-read). `stale` is informational:
    the total last read differs from the one /proc/meminfo holds now. -/
def histStep (info full : Res (List Nat)) (specVal : String → Option (Option Nat))
    (st : HStep) (mi : MI) (s : PState) (last : Last) : (Json × MI × PState × Last) :=
  let stale : Bool := match truthy s.cache, specTotal mi with
    | some t, some cur => t != cur
    | _, _ => false
  match st with
  | .meminfoKV ls =>
    let b := renderMeminfo ls
    (jObj [("op", Json.str "meminfo"), ("file", jBytes b), ("wf", Json.bool (wfMeminfo ls))], ⟨some ls, b⟩, s, last)
  | .meminfoRaw b => (jObj [("op", Json.str "meminfo"), ("file", jBytes b), ("wf", Json.bool false)], ⟨none, b⟩, s, last)
  | .vm =>
    let (r, s') := virtualMemory pcfg mi.bytes s
    let (sp, last') : Json × Last := match specTotal mi with
      | some t => (jObj [("ok", jNat t)], .known (some t))
      | none => (Json.null, .unknown)
    (jObj [("op", Json.str "vm"), ("model", jRes jNat r), ("spec", sp), ("stale", Json.bool stale)], mi, s', last')
  | .pct mt =>
    let (r, s') := memoryPercentS cfg pcfg mt info full mi.bytes s
    let pctJ (v t : Nat) : Json :=
      if t > 0 then jObj [("ok", jRat (specPercent v (t : Int)))] else jObj [("exc", Json.str "ValueError")]
    let usable : Option Nat := match last with
      | .known (some t) => if t = 0 then none else some t
      | _ => none
    let (sp, last') : Json × Last := match specVal mt with
      | some none => (jObj [("exc", Json.str "ValueError")], last)      -- unknown memtype: nothing is read
      | none =>                                                          -- process files outside the spec's domain
        (Json.null, match usable with | some _ => last | none => .unknown)
      | some (some v) =>
        match usable, last with
        | some t, _ => (pctJ v t, last)
        | none, .unknown => (Json.null, .unknown)
        | none, .known _ =>
          match specTotal mi with                                        -- first read (or re-read of a 0)
          | some t => (pctJ v t, .known (some t))
          | none => (Json.null, .unknown)
    (jObj [("op", Json.str "pct"), ("model", jRes jRat r), ("spec", sp), ("stale", Json.bool stale)], mi, s', last')

def runHist (info full : Res (List Nat)) (specVal : String → Option (Option Nat)) :
    List HStep → MI → PState → Last → List Json
  | [], _, _, _ => []
  | st :: rest, mi, s, last =>
    let (j, mi', s', last') := histStep info full specVal st mi s last
    j :: runHist info full specVal rest mi' s' last'

def histOut (j : Json) (info full : Res (List Nat)) (specVal : String → Option (Option Nat)) : R (List (String × Json)) := do
  match j.getObjVal? "hist" with
  | .error _ => return []
  | .ok h =>
    let steps ← asList parseHStep h
    return [("hist", Json.arr (runHist info full specVal steps ⟨none, []⟩ ⟨none⟩ (.known none)).toArray)]

/-- op "shape": which methods the class body defines for the import-time flags (C13_class_level) -/
def handleShape (j : Json) : R Json := do
  let ir ← boolF j "importRollup"
  let is ← boolF j "importSmaps"
  let fullIsInfo := !(cfg.fullGuard.holds ir is) && cfg.fullElseIsInfo
  let fullDefined := cfg.fullGuard.holds ir is || cfg.fullElseIsInfo
  let m := jObj [("fullIsInfo", Json.bool fullIsInfo), ("fullDefined", Json.bool fullDefined),
                 ("hasMaps", Json.bool (memoryMapsDefined cfg ir is))]
  -- the property: with /proc/pid/smaps, roll-up or not, the extended figures and memory_maps exist
  let sp := if is then jObj [("fullIsInfo", Json.bool false), ("fullDefined", Json.bool true), ("hasMaps", Json.bool true)]
            else Json.null
  return jObj [("model", m), ("spec", sp)]

def handleCase (_ : Unit) (j : Json) : R (Unit × Json) := do
  let op ← strF j "op"
  if op == "shape" then return ((), ← handleShape j)
  let pagesize ← natF j "pagesize"
  let zombie ← boolF j "zombie"
  let hasRollup ← boolF j "hasRollup"
  let probe ← field j "probe" >>= parseProbe
  let pcts ← listF parsePct j "pct"
  let mode ← strF j "rollup"
  if op == "raw" then
    let smaps ← bytesF j "smaps"
    let statm ← bytesF j "statm"
    let rb ← bytesF j "rollupData"
    let rollup ← parseRollupMode mode rb
    let info := memoryInfo cfg pagesize statm
    let full := memoryFullInfo cfg hasRollup pagesize rollup smaps statm
    let ho ← histOut j info full (fun _ => none)
    return ((), jObj ([("model", jObj (modelAll probe zombie hasRollup pagesize rollup smaps statm pcts)),
      ("fullOther", jObj [("model", jRes (jList jNat) (memoryFullInfo cfg (!hasRollup) pagesize rollup smaps statm)), ("spec", Json.null)]),
      ("readings", readings smaps)] ++ ho))
  else if op == "case" then
    let ms0 ← listF parseMapping j "ms"
    -- optional: the kernel's fine-grained PSS per mapping (C13_full_info_two_sources): the listing shows
    -- `fine / pssUnit`, the roll-up (unless given as a record of its own) is `rollupKVsFine`
    let fine : Option (List Nat) ← optF (asList asNat) j "fine"
    let fms : Option (List FineMapping) := fine.map fun fs => (ms0.zip fs).map fun (m, f) => ⟨m, f⟩
    let ms : List Mapping := match fms with | some l => shownAll l | none => ms0
    let cols ← listF asNat j "statm"
    let st : Statm ← match cols with
      | [a, b, c, d, e, f, g] => pure (⟨a, b, c, d, e, f, g⟩ : Statm)
      | _ => .error "statm must have 7 columns"
    let smaps := renderSmaps ms
    let statm := renderStatm st
    -- optional: the roll-up as a record of its own (keys / values independent of the mappings)
    let rkv0 : Option (List KV) ← optF (asList parseKV) j "rollupKV"
    let rkv : Option (List KV) := match rkv0, fms with
      | some kvs, _ => some kvs
      | none, some l => some (rollupKVsFine l)
      | none, none => none
    let rrange : Option (List Nat) ← optF (asList asNat) j "rollupRange"
    let (rlo, rhi) : Nat × Nat := match rrange with
      | some [a, b] => (a, b)
      | _ => ((ms.head?.map (·.lo)).getD 0, (ms.getLast?.map (·.hi)).getD 0)
    let rb := match rkv with
      | some kvs => renderRollupRec rlo rhi kvs
      | none => renderRollup (rollupKeysOf ms) ms
    let rollup ← parseRollupMode mode rb
    -- the full domain of the property (names ending in blanks included), whatever the code does
    let wf := wfSmaps false ms && ms.all (fsConsistent probe)
    -- the wider domain of C13_maps_roundtrip_general: own key lists, no stale row key
    let wfG := wfSmapsOwn false ms && noStale [] ms && ms.all (fsConsistent probe)
    let rows := ms.map specRow
    -- the spec speaks about well-formed kernel content; empty smaps: [] / ZombieProcess
    let specMaps : Json :=
      if ms.isEmpty then (if zombie then jObj [("exc", Json.str "ZombieProcess")] else jObj [("ok", jList jRow [])])
      else if wf || wfG then jObj [("ok", jList jRow rows)] else Json.null
    let specGrp : Json :=
      if ms.isEmpty then (if zombie then jObj [("exc", Json.str "ZombieProcess")] else jObj [("ok", jList jGRow [])])
      else if wf || wfG then jObj [("ok", jList jGRow (specGrouped rowKeys.length rows))] else Json.null
    -- uss / pss / swap: from the roll-up record when it is the source (C13_full_info_from_rollup),
    -- else the sums over the mappings (C13_full_info_sums / C13_rollup_agrees)
    let fullValsFor (has : Bool) : Option (List Nat) :=
      match (if has && mode == "data" then rkv else none) with
      | some kvs =>
        if wfRollupRec kvs then
          let f := specFullRollup kvs
          some (specMemInfo pagesize st ++ [f.uss, f.pss, f.swap])
        else none
      | none =>
        -- a roll-up rendered as the field-wise sums promises what the listing promises (C13_rollup_agrees)
        if ms.isEmpty || wf then some (specFullInfo pagesize st ms) else none
    let fromRec : Option (List KV) := if hasRollup && mode == "data" then rkv else none
    let fullVals : Option (List Nat) := fullValsFor hasRollup
    let jFull (o : Option (List Nat)) : Json := match o with | some v => jObj [("ok", jList jNat v)] | none => Json.null
    -- the same process asked through the OTHER source (call-time flag flipped)
    let fullOther := jObj [("model", jRes (jList jNat) (memoryFullInfo cfg (!hasRollup) pagesize rollup smaps statm)),
                           ("spec", jFull (fullValsFor (!hasRollup)))]
    -- the same process asked through a class whose body was evaluated with other import-time flags
    let cls : Option (List Bool) ← optF (asList asBool) j "cls"
    let fullCls : List (String × Json) := match cls with
      | some [ir, is] =>
        [("fullCls", jObj [("model", jRes (jList jNat) (memoryFullInfoCls cfg ir is pagesize rollup smaps statm)),
                           ("spec", if is then jFull (fullValsFor ir) else Json.null)])]
      | _ => []
    -- both sources of one process (fine-grained PSS): the promised difference (C13_full_info_sources_within_n_kB)
    let fineInfo : List (String × Json) := match fms with
      | some l => [("fine", jObj [("listed", jNat (1024 * pssListed (fines l))), ("rolled", jNat (1024 * pssRolled (fines l))),
                                  ("n", jNat l.length), ("applies", Json.bool (wf && (keysOf ms).contains bPss && rkv0.isNone))])]
      | none => []
    let spec := jObj [
      ("info", jObj [("ok", jList jNat (specMemInfo pagesize st))]),
      ("full", match fullVals with | some v => jObj [("ok", jList jNat v)] | none => Json.null),
      ("maps", specMaps), ("grouped", specGrp),
      ("pct", jList (fun p => match fullVals with | some v => specPct v p | none => Json.null) pcts)]
    let info := memoryInfo cfg pagesize statm
    let full := memoryFullInfo cfg hasRollup pagesize rollup smaps statm
    let specVal : String → Option (Option Nat) := fun mt =>
      match fullVals with
      | some v => some ((pfullmemNames.zip v).lookup mt)
      | none => none
    let ho ← histOut j info full specVal
    -- what the never-cleared dict makes of non-uniform key lists (C13_maps_nonuniform_exact)
    let inh : Json :=
      if !ms.isEmpty && wfSmapsOwn false ms && ms.all (fsConsistent probe)
      then jObj [("ok", jList jRow (inheritRows false [] ms))] else Json.null
    return ((), jObj ([
      ("files", jObj [("smaps", jBytes smaps), ("statm", jBytes statm), ("rollup", jBytes rb)]),
      ("wf", Json.bool wf), ("wfOwn", Json.bool (wfSmapsOwn false ms)), ("uniform", Json.bool (uniformKeys ms)),
      ("nostale", Json.bool (noStale [] ms)), ("inherit", inh), ("readings", readings smaps),
      ("rollupRec", Json.bool fromRec.isSome), ("fullOther", fullOther),
      ("model", jObj (modelAll probe zombie hasRollup pagesize rollup smaps statm pcts)),
      ("spec", spec)] ++ fullCls ++ fineInfo ++ ho))
  else .error s!"unknown op {op}"

/-! ### op "bind": several procfs trees, PROCFS_PATH re-pointed between construction and calls

   {"op": "bind", "roots": [<case line> | null, …], "steps": [{"op": "point", "r": i} | {"op": "new"} |
    {"op": "call", "k": handle, "m": "info"|"full"|"maps"|"grouped"|"pct", "memtype": …, "total": …} |
    {"op": "enter"|"exit", "k": handle}]}
   Every root is rendered and judged by the "case" handler (files, single-process spec); the model
   answer of a step is `runB cfg bcfg`, the spec answer is the single-process spec of the tree
   psutil pointed at when the object was CREATED (C13_figures_describe_the_bound_process /
   C13_history_figures). -/

def parseMeth (j : Json) : R Meth := do
  let m ← strF j "m"
  if m == "info" then return .info
  else if m == "full" then return .full
  else if m == "maps" then return .maps
  else if m == "grouped" then return .grouped
  else if m == "pct" then return .pct (← strF j "memtype") (← optF asInt j "total")
  else .error s!"bad method {m}"

def parseBStep (j : Json) : R BStep := do
  let op ← strF j "op"
  if op == "point" then return .point (← natF j "r")
  else if op == "new" then return .new
  else if op == "call" then return .call (← natF j "k") (← parseMeth j)
  else if op == "enter" then return .enter (← natF j "k")
  else if op == "exit" then return .exit (← natF j "k")
  else .error s!"bad bind step {op}"

def jAns : Ans → Json
  | .nums r => jRes (jList jNat) r
  | .rows r => jRes (jList jRow) r
  | .grows r => jRes (jList jGRow) r
  | .rat r => jRes jRat r
  | .ctor r => jRes (fun _ => Json.null) r
  | .noObject => jObj [("noObject", Json.bool true)]
  | .unit => Json.null

/-- what the "case" handler printed for one root: its files and its single-process spec -/
structure RootOut where
  tree : Tree
  spec : Json

def specOfCall (ro : RootOut) : Meth → Json
  | .info => (ro.spec.getObjVal? "info").toOption.getD Json.null
  | .full => (ro.spec.getObjVal? "full").toOption.getD Json.null
  | .maps => (ro.spec.getObjVal? "maps").toOption.getD Json.null
  | .grouped => (ro.spec.getObjVal? "grouped").toOption.getD Json.null
  | .pct mt tot =>
    match (ro.spec.getObjVal? "full").toOption.bind (fun f => (f.getObjVal? "ok").toOption) with
    | some v =>
      match asList asNat v with
      | .ok vals => specPct vals ⟨mt, tot, 0⟩
      | .error _ => Json.null
    | none => Json.null

/-- spec side of a bind history, from the per-root specs: an object answers for the tree that was
    current when it was created (state kept here, independently of the model's) -/
def specBind (roots : List (Option RootOut)) : List BStep → Nat → List Nat → List Json
  | [], _, _ => []
  | st :: rest, cur, objs =>
    match st with
    | .point r => Json.null :: specBind roots rest r objs
    | .new =>
      match (roots[cur]?).join with
      | some _ => jObj [("ok", Json.null)] :: specBind roots rest cur (objs ++ [cur])
      | none => jObj [("exc", Json.str "NoSuchProcess")] :: specBind roots rest cur objs
    | .call k m =>
      (match objs[k]? with
        | none => jObj [("noObject", Json.bool true)]
        | some o =>
          match (roots[o]?).join with
          | some ro => specOfCall ro m
          | none => jObj [("noObject", Json.bool true)]) :: specBind roots rest cur objs
    | .enter _ => Json.null :: specBind roots rest cur objs
    | .exit _ => Json.null :: specBind roots rest cur objs

def handleBind (j : Json) : R Json := do
  let rootsJ ← listF (asOpt pure) j "roots"
  let pagesize ← natF j "pagesize"
  let hasRollup ← boolF j "hasRollup"
  let probe ← field j "probe" >>= parseProbe
  let outs : List (Option (RootOut × Json)) ← rootsJ.mapM fun (r : Option Json) =>
    match r with
    | none => pure none
    | some c => do
      let (_, o) ← handleCase () c
      let files ← field o "files"
      let mode ← strF c "rollup"
      let rb ← bytesF files "rollup"
      let t : Tree := { statm := ← bytesF files "statm", smaps := ← bytesF files "smaps",
                        rollup := ← parseRollupMode mode rb, zombie := ← boolF c "zombie" }
      let sp := (o.getObjVal? "spec").toOption.getD Json.null
      pure (some (⟨t, sp⟩, o))
  let steps ← listF parseBStep j "steps"
  let world : World := outs.map (Option.map (·.1.tree))
  let env : Env := ⟨pagesize, hasRollup, probe⟩
  let model := runB cfg bcfg env world steps ⟨0, []⟩
  let spec := specBind (outs.map (Option.map (·.1))) steps 0 []
  let stepsJ := (model.zip spec).map fun (a, sp) => jObj [("model", jAns a), ("spec", sp)]
  return jObj [("roots", jList (fun o => match o with | some (_, out) => out | none => Json.null) outs),
               ("steps", Json.arr stepsJ.toArray)]

def handle (u : Unit) (j : Json) : R (Unit × Json) := do
  let op ← strF j "op"
  if op == "bind" then return ((), ← handleBind j)
  handleCase u j

def main : IO Unit := Proto.run () (total handle)
