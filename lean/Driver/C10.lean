/- Driver/C10.lean — line-protocol driver for the C10 model (see Base/Proto.lean). -/
import PsutilModel.Base.Proto
import PsutilModel.Model.C10Gen
import PsutilModel.Model.C10Front
import PsutilModel.Model.C10Conc
import PsutilModel.Model.C10Dict
import PsutilModel.Spec.C10
import PsutilModel.Spec.C10Out
import PsutilModel.Spec.C10Plat
open Lean Psutil Psutil.Proto Psutil.C10

structure DSt where
  st : St
  cst : CSt                       -- the same history on the concrete dicts (Model/C10Dict)
  hist : List Op                  -- chronological, `_WrapNumbers` level
  fhist : List (FOp × Out)        -- public operations, newest first, with the promised result

def parseName (s : String) : R C10.Name :=
  if s == "disk" then .ok .disk else if s == "net" then .ok .net
  else if s == "diskper" then .ok .diskPer else .error s!"bad name {s}"

def parseFn (s : String) : R Fn :=
  if s == "disk" then .ok .disk else if s == "net" then .ok .net else .error s!"bad fn {s}"

def parseRaw (j : Json) : R Raw :=
  asList (fun e => do
    match e.getArr? with
    | .ok #[k, v] => do
      let k ← asStr k
      let v ← asList asNat v
      pure (k, v)
    | _ => .error "raw entry must be [key, [nums]]") j

def parseListing (j : Json) : R Listing :=
  asList (fun e => do
    match e.getArr? with
    | .ok #[k, b, v] => do
      let k ← asStr k
      let b ← match b with | .bool b => pure b | _ => .error "storage flag must be a bool"
      let v ← asList asNat v
      pure (k, b, v)
    | _ => .error "listing entry must be [key, storage, [nums]]") j

def jRaw (r : Raw) : Json := jList (fun kv => Json.arr #[Json.str kv.1, jList jNat kv.2]) r

def jName : C10.Name → Json
  | .disk => "disk" | .net => "net" | .diskPer => "diskper"

def jOut : Out → Json
  | .none => jObj [("kind", "none")]
  | .nil => jObj [("kind", "nil")]
  | .dict r => jObj [("kind", "dict"), ("raw", jRaw r)]
  | .total f => jObj [("kind", "total"), ("fields", jList jNat f)]
  | .indexError => jObj [("kind", "exc"), ("exc", "IndexError")]
  | .unit => jObj [("kind", "unit")]

def jCOut : COut → Json
  | .out o => jOut o
  | .keyError => jObj [("kind", "exc"), ("exc", "KeyError")]
  | .assertionError => jObj [("kind", "exc"), ("exc", "AssertionError")]

/-- the `name` string of a cache slot, as extracted from the source -/
def nameStr : C10.Name → String
  | .disk => Gen.C10.diskName | .net => Gen.C10.netName | .diskPer => Gen.C10.diskPerName

def jRemD (d : RemD) : Json := jList (fun e => Json.arr #[Json.str e.1.1, jNat e.1.2, jNat e.2]) d
def jRemK (rk : RemK) : Json :=
  jList (fun e => Json.arr #[Json.str e.1, jList (fun p => Json.arr #[Json.str p.1, jNat p.2]) e.2]) rk

/-- `cache_info()` of the concrete model -/
def jInfo (s : CSt) : Json :=
  let i := cacheInfo s
  jObj [("cache", jList (fun e => Json.arr #[Json.str (nameStr e.1), jRaw e.2]) i.cache),
        ("reminders", jList (fun e => Json.arr #[Json.str (nameStr e.1), jRemD e.2]) i.reminders),
        ("keys", jList (fun e => Json.arr #[Json.str (nameStr e.1), jRemK e.2]) i.reminderKeys)]

/-- what `cache_info()` must show according to the history alone (C10_cache_info_reflects): per name
    with a `nowrap=True` snapshot since its last clear — the newest snapshot, and the non-zero
    wrap sums of the devices listed in it as `[k, i, sum]` -/
def jInfoSpec (h : List Op) : Json :=
  let names := allNames.filter fun n => !(Spec.snapsOf n h).isEmpty
  let sums (n : C10.Name) : List (Key × Nat × Nat) :=
    let snaps := Spec.snapsOf n h
    match snaps with
    | [] => []
    | r :: _ => r.flatMap fun kv =>
        (List.range kv.2.length).filterMap fun i =>
          let v := Spec.wrapSum i (Spec.epochVals kv.1 snaps)
          if v = 0 then none else some (kv.1, i, v)
  jObj [("cache", jList (fun n => Json.arr #[Json.str (nameStr n), jRaw ((Spec.snapsOf n h).headD [])]) names),
        ("sums", jList (fun n => Json.arr #[Json.str (nameStr n),
            jList (fun e => Json.arr #[Json.str e.1, jNat e.2.1, jNat e.2.2]) (sums n)]) names)]

/-- result of a public call on the concrete dicts, shaped like the front end does -/
def cshape (perdev : Bool) : COut → COut
  | .out o => .out (shape perdev o)
  | e => e

def specOp (h : List Op) : Op → Out
  | .call n nowrap raw =>
    if raw.isEmpty then .none
    else if nowrap then .dict (Spec.expected h n raw)
    else .dict raw
  | _ => .unit

/-- promised result of a public call: per-device values from the history-defined specification,
    as a dict or summed field by field (`Spec.totalOf`) -/
def specCall (h : List Op) (c : Call) : Out :=
  let raw := platRaw cfg c.fn c.perdev c.listing
  match specOp h (.call (slotOf cfg c.fn c.perdev) c.nowrap raw) with
  | .none => if c.perdev then .none else .nil
  | .dict r => if c.perdev then .dict r else .total (Spec.totalOf r)
  | o => o

/-- the past of `fn` as `Spec.prevPresent` reads it (`Spec.pastEntry`, the definition `C10_floor_sound` is about),
    each entry with the result promised for it -/
def pastOf (fn : Fn) (fh : List (FOp × Out)) : List (Option (Bool × Bool × List Key) × Out) :=
  fh.filterMap fun (op, o) => (Spec.pastEntry fn op).map fun e => (e, o)

/-- lower bounds the property statement puts on a per-device `nowrap=True` result: for every
    device that stayed listed by the kernel since the previous per-device `nowrap=True` call of the
    same function (no cache_clear in between), that call's promised tuple. -/
def floorOf (fh : List (FOp × Out)) (c : Call) : Raw :=
  if c.nowrap && c.perdev then
    let past := pastOf c.fn fh
    c.listing.filterMap fun e =>
      match Spec.prevPresent e.1 (past.map (·.1)) with
      | none => none
      | some j => match past[j]? with
        | some (_, .dict r) => (r.lookup e.1).map fun v => (e.1, v)
        | _ => none
  else []

def parseAct (j : Json) : R Act := do
  let a ← strF j "a"
  let t ← field j "t" >>= asNat
  if a == "sample" then do
    let n ← strF j "name" >>= parseName
    let raw ← field j "raw" >>= parseRaw
    pure (.sample t n raw)
  else if a == "wantclear" then
    match j.getObjVal? "name" with
    | .ok (.str s) => do let n ← parseName s; pure (.wantClear t (some n))
    | _ => pure (.wantClear t none)
  else if a == "acquire" then pure (.acquire t)
  else if a == "load" then pure (.load t)
  else if a == "store" then pure (.store t)
  else if a == "release" then pure (.release t)
  else .error s!"unknown act {a}"

/-- serial specification of a lock-ordered log: each body gets what the history-defined
    specification promises after the bodies logged before it -/
def specLog : List Op → List (Nat × Op) → List (Nat × Out)
  | _, [] => []
  | h, (t, op) :: rest => (t, specOp h op) :: specLog (h ++ [op]) rest

/-- do the calls sit in the log in the order in which they sampled the kernel (statement of
    `C10_concurrent_Full`, first part)? Thread ids and raw snapshots are compared. -/
def inSamplingOrder (s : Sys) : Bool :=
  let key : Nat × Op → Option (Nat × Raw) := fun e => match e.2 with
    | .call _ _ raw => some (e.1, raw)
    | _ => none
  let logged := s.log.filterMap key
  let sampled := s.samples.filterMap key
  logged == sampled.take logged.length && sampled.length ≤ logged.length + 1

def jOuts (l : List (Nat × Out)) : Json := jList (fun p => Json.arr #[jNat p.1, jOut p.2]) l

def handle (d : DSt) (j : Json) : R (DSt × Json) := do
  let op ← strF j "op"
  if op == "reset" then
    return (⟨St.init, CSt.init, [], []⟩, ok (Json.str "reset"))
  if op == "names" then
    return (d, jObj [("disk", Json.str (nameStr .disk)), ("net", Json.str (nameStr .net)),
                     ("diskper", Json.str (nameStr .diskPer)),
                     ("sample_under_lock", Json.bool cfg.sampleUnderLock),
                     ("sample_under_lock_disk", Json.bool Gen.C10.sampleUnderLockDisk),
                     ("sample_under_lock_net", Json.bool Gen.C10.sampleUnderLockNet)])
  if op == "diskline" then
    -- one /proc/diskstats line, `vals[i]` = numeric value of field i (0 at the name): the extracted branch table
    -- against the kernel's documented layout
    let vals ← field j "vals" >>= asList asNat
    let jc (r : Option (Nat × List Nat)) : Json := match r with
      | none => jObj [("kind", "exc"), ("exc", "ValueError")]
      | some (i, cs) => jObj [("kind", "line"), ("name_idx", jNat i), ("counters", jList jNat cs)]
    return (d, jObj [("model", jc (countersOf layouts vals)),
                     ("spec", if Spec.isKernelLineLength vals.length
                              then jc (some (Spec.kernelNameIdx, Spec.kernelCounters vals)) else Json.null)])
  if op == "sched" then
    let acts ← field j "acts" >>= asList parseAct
    match runC cfg Sys.init acts with
    | none => return (d, jObj [("model", jObj [("kind", "not-enabled")]), ("spec", Json.null)])
    | some s =>
      return (d, jObj [("model", jObj [("kind", "sched"), ("outs", jOuts s.outs),
                                        ("serial", jOuts (serial cfg St.init s.log).2),
                                        ("order", jList jNat (s.log.map (·.1))),
                                        ("lock_free", Json.bool s.lock.isNone),
                                        ("in_sampling_order", Json.bool (inSamplingOrder s))]),
                       ("spec", jOuts (specLog [] s.log))])
  if op == "fcall" || op == "fclear" || op == "fclearall" then
    let fo : FOp ← (
      if op == "fcall" then do
        let fn ← strF j "fn" >>= parseFn
        let nw ← boolF j "nowrap"
        let pd ← boolF j "perdev"
        let l ← field j "listing" >>= parseListing
        pure (FOp.call ⟨fn, nw, pd, l⟩)
      else if op == "fclear" then do
        let fn ← strF j "fn" >>= parseFn
        pure (FOp.clear fn)
      else pure FOp.clearAll)
    let (s', out) := fstep cfg d.st fo
    let (cs', cout) : CSt × COut := match fo with
      | .call c =>
        let r := cstep cfg d.cst (.call (slotOf cfg c.fn c.perdev) c.nowrap (platRaw cfg c.fn c.perdev c.listing))
        (r.1, cshape c.perdev r.2)
      | fo => (crunAll cfg d.cst (lower cfg fo), .out .unit)
    let spec : Out := match fo with
      | .call c => specCall d.hist c
      | _ => .unit
    let extra : List (String × Json) := match fo with
      | .call c => [("floor", jRaw (floorOf d.fhist c)),
                    ("slot", jName (slotOf cfg c.fn c.perdev)),
                    ("handed", jRaw (platRaw cfg c.fn c.perdev c.listing))]
      | _ => []
    let hist' := d.hist ++ lower cfg fo
    let wantInfo := match j.getObjVal? "info" with | .ok (.bool b) => b | _ => false
    let info : List (String × Json) :=
      if wantInfo then [("info", jInfo cs'), ("info_spec", jInfoSpec hist')] else []
    return (⟨s', cs', hist', (fo, spec) :: d.fhist⟩,
            jObj ([("model", jOut out), ("cmodel", jCOut cout), ("spec", jOut spec)] ++ info ++ extra))
  let o : Op ← (
    if op == "call" then do
      let n ← strF j "name" >>= parseName
      let nw ← boolF j "nowrap"
      let raw ← field j "raw" >>= parseRaw
      pure (Op.call n nw raw)
    else if op == "clear" then do
      let n ← strF j "name" >>= parseName
      pure (Op.clear n)
    else if op == "clearall" then pure Op.clearAll
    else .error s!"unknown op {op}")
  let (s', out) := step cfg d.st o
  let (cs', cout) := cstep cfg d.cst o
  return (⟨s', cs', d.hist ++ [o], d.fhist⟩,
          jObj [("model", jOut out), ("cmodel", jCOut cout), ("spec", jOut (specOp d.hist o)),
                ("info", jInfo cs')])

def main : IO Unit := Proto.run (⟨St.init, CSt.init, [], []⟩ : DSt) (total handle)
