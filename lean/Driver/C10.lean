/- Driver/C10.lean — line-protocol driver for the C10 model (see Base/Proto.lean). -/
import PsutilModel.Base.Proto
import PsutilModel.Model.C10Gen
import PsutilModel.Spec.C10
open Lean Psutil Psutil.Proto Psutil.C10

structure DSt where
  st : St
  hist : List Op      -- chronological

def parseName (s : String) : R C10.Name :=
  if s == "disk" then .ok .disk else if s == "net" then .ok .net else .error s!"bad name {s}"

def parseRaw (j : Json) : R Raw :=
  asList (fun e => do
    match e.getArr? with
    | .ok #[k, v] => do
      let k ← asStr k
      let v ← asList asNat v
      pure (k, v)
    | _ => .error "raw entry must be [key, [nums]]") j

def jRaw (r : Raw) : Json := jList (fun kv => Json.arr #[Json.str kv.1, jList jNat kv.2]) r

def jOut : Out → Json
  | .none => jObj [("kind", "none")]
  | .dict r => jObj [("kind", "dict"), ("raw", jRaw r)]
  | .indexError => jObj [("kind", "exc"), ("exc", "IndexError")]
  | .unit => jObj [("kind", "unit")]

def specOut (h : List Op) : Op → Json
  | .call n nowrap raw =>
    if raw.isEmpty then jOut .none
    else if nowrap then jOut (.dict (Spec.expected h n raw))
    else jOut (.dict raw)
  | _ => jOut .unit

def handle (d : DSt) (j : Json) : R (DSt × Json) := do
  let op ← strF j "op"
  if op == "reset" then
    return (⟨St.init, []⟩, ok (Json.str "reset"))
  let o : Op ← (
    if op == "call" then do
      let n ← strF j "name" >>= parseName
      let nw ← boolF j "nowrap"
      let raw ← field j "raw" >>= parseRaw
      pure (Op.call n nw raw)
    else if op == "clear" then do
      let n ← strF j "name" >>= parseName
      pure (Op.clear n)
    else if op == "clearall" then pure Op.clearAll
    else .error s!"unknown op {op}")
  let (s', out) := step cfg d.st o
  return (⟨s', d.hist ++ [o]⟩, jObj [("model", jOut out), ("spec", specOut d.hist o)])

def main : IO Unit := Proto.run (⟨St.init, []⟩ : DSt) (total handle)
