/- Driver/C04.lean — line-protocol driver for the C04 model and its specification machine. -/
import PsutilModel.Base.Proto
import PsutilModel.Model.C04Gen
import PsutilModel.Model.C04Fine
import PsutilModel.Spec.C04
import PsutilModel.Model.C04Status
import PsutilModel.Spec.C04Status
import PsutilModel.Model.C04ScanGen
import PsutilModel.Spec.C04Scan
open Lean Psutil Psutil.Proto Psutil.C04

structure DSt where
  m : St
  s : Spec.SSt
  mouts : List Out            -- chronological
  souts : List (Option Out)

def DSt.init : DSt := ⟨St.init Kernel.empty, Spec.SSt.init Kernel.empty, [], []⟩

def parseStatus (s : String) : R StatusKind :=
  if s == "ok" then .ok .ok else if s == "notgid" then .ok .noTgid
  else if s == "unreadable" then .ok .unreadable else .error s!"bad status kind {s}"

def parseProc (j : Json) : R Proc := do
  let pid ← natF j "pid"
  let start ← natF j "start"
  let z ← boolF j "zombie"
  let f ← boolF j "foreign"
  let st ← strF j "status" >>= parseStatus
  pure ⟨pid, start, z, f, st⟩

def parseThr (j : Json) : R Thr := do
  pure ⟨← natF j "tid", ← natF j "tgid", ← natF j "start"⟩

def parseKEv (j : Json) : R KEv := do
  let k ← strF j "k"
  if k == "spawn" then pure (.spawn (← field j "p" >>= parseProc))
  else if k == "exit" then pure (.exit (← natF j "pid"))
  else if k == "zombie" then pure (.zombie (← natF j "pid"))
  else if k == "thread" then pure (.thread (← field j "t" >>= parseThr))
  else .error s!"unknown kernel event {k}"

def parseAttrs (j : Json) : R Attrs :=
  if j.isNull then pure .none else do pure (.names (← asList asStr j))

def jOut : Out → Json
  | .unit => jObj [("kind", "unit")]
  | .pidList l => jObj [("kind", "pids"), ("l", jList jNat l)]
  | .bool b => jObj [("kind", "bool"), ("v", Json.bool b)]
  | .exc c => jObj [("kind", "exc"), ("exc", Json.str c)]
  | .gen i => jObj [("kind", "gen"), ("g", jNat i)]
  | .yield r p info => jObj [("kind", "yield"), ("obj", jNat r), ("pid", jNat p),
      ("info", jOpt (jList Json.str) info)]
  | .stop => jObj [("kind", "stop")]
  | .badArg => jObj [("kind", "badarg")]

def refAt (outs : List Out) (t : Nat) : Option Ref :=
  match outs[t]? with
  | some (.yield r _ _) => some r
  | _ => none

def srefAt (outs : List (Option Out)) (t : Nat) : Option Ref :=
  match outs[t]? with
  | some (some (.yield r _ _)) => some r
  | _ => none

/-- an op whose object argument is named by the step that yielded it: resolved per side;
    a step that did not yield gives a reference no object has (→ badArg) -/
def handle (d : DSt) (j : Json) : R (DSt × Json) := do
  let op ← strF j "op"
  if op == "reset" then
    return (DSt.init, ok (Json.str "reset"))
  if op == "entries" then
    let es ← listF asBytes j "names"
    return (d, jObj [("model", jObj [("kind", "pids"), ("l", jList jNat (pidsOfEntries es))]),
                     ("spec", Json.null)])
  -- the values as_dict stores, given what each getter does on its own
  if op == "as_dict" then
    let explicit ← boolF j "explicit"
    let parseOne : Json → R (String × GetRes) := fun x => do
      let nm ← strF x "name"
      let r ← strF x "res"
      let g : GetRes ← (
        if r == "val" then pure GetRes.val else if r == "ad" then pure GetRes.accessDenied
        else if r == "zombie" then pure GetRes.zombie else if r == "nsp" then pure GetRes.nsp
        else if r == "notimpl" then pure GetRes.notImpl else .error s!"unknown getter outcome {r}")
      pure (nm, g)
    let outs ← listF parseOne j "outs"
    let res : Json := match asDictVals explicit outs [] with
      | .dict items => jObj [("kind", "dict"), ("items", jList (fun (x : String × Bool) => Json.arr #[Json.str x.1, Json.bool x.2]) items)]
      | .nsp => jObj [("kind", "exc"), ("exc", "NoSuchProcess")]
      | .notImpl => jObj [("kind", "exc"), ("exc", "NotImplementedError")]
    return (d, jObj [("model", res), ("spec", Json.null)])
  -- two threads in the drain loop of the prologue: the schedule observed on the real threads
  if op == "drain_race" then
    let set ← listF asNat j "set"
    let sched ← listF asBool j "sched"
    let pcName : DPc → String := fun
      | .test => "test" | .pop => "pop" | .done => "done" | .keyError => "KeyError"
    let (rest, a, b) := drainRun cfg.popGuarded set DTh.start DTh.start sched
    return (d, jObj [("model", jObj [("a", Json.str (pcName a.pc)), ("b", Json.str (pcName b.pc)),
                                      ("a_removed", jList jNat a.removed), ("b_removed", jList jNat b.removed),
                                      ("left", jList jNat rest)]),
                     ("spec", Json.null)])
  -- one thread at statement granularity: what it read from the shared world → what it yields / publishes
  if op == "fine" then
    let pair : Json → R (Nat × Ref) := fun x => do pure (← natF x "pid", ← natF x "ref")
    let touch : Json → R FTouch := fun x => do
      let c ← field x "create" >>= asOpt asNat
      pure ⟨c, ← boolF x "fill"⟩
    let rd : FReads := ⟨← listF pair j "copy", ← listF asNat j "listing", ← listF asNat j "popped", ← boolF j "pop_err"⟩
    let res := fineRun cfg rd (← boolF j "invalid") (← boolF j "has_attrs") (← natF j "base") (← listF touch j "touches")
    let jPair : Nat × Ref → Json := fun x => Json.arr #[jNat x.1, jNat x.2]
    return (d, jObj [("model", jObj [
        ("todo", jList (fun (x : Nat × Option Ref) => Json.arr #[jNat x.1, jOpt jNat x.2]) res.todo),
        ("yields", jList jPair res.yields),
        ("published", jOpt (jList jPair) res.published),
        ("exc", jOpt Json.str res.exc)]), ("spec", Json.null)])
  -- the platform functions called on their own (no `Op`: they are not part of the history machine)
  if op == "posix_pid_exists" then
    let n ← natF j "n"
    let o := posixPidExists d.m.k n
    return (⟨d.m, d.s, d.mouts ++ [o], d.souts ++ [none]⟩, jObj [("model", jOut o), ("spec", Json.null)])
  if op == "linux_pid_exists" then
    let n ← natF j "n"
    let mid ← listF parseKEv j "mid"
    let deny := (optF asBool j "deny").toOption.join.getD false
    -- `text`: the bytes of /proc/<n>/status at the read (the harness reads them off the fake procfs): the
    -- byte-level scan runs instead of the abstract `readStatus`; `foreign_text`: not in the kernel's format
    let text ← optF asBytes j "text"
    let foreignText := (optF asBool j "foreign_text").toOption.join.getD false
    let (k', o) :=
      if deny then linuxPidExistsDenied d.m.k n mid
      else match text with
        | some content => linuxPidExistsText d.m.k n mid (some content)
        | none => linuxPidExists d.m.k n mid
    -- the statement's promise (True exactly for listed PIDs) when nothing changes inside the call
    let sp : Json := if mid.isEmpty && decide (n ≤ pidTMax) && !foreignText then jOut (.bool ((Spec.listed d.s.k).contains n)) else Json.null
    return (⟨{ d.m with k := k' }, { d.s with k := d.s.k.applyAll mid }, d.mouts ++ [o], d.souts ++ [none]⟩,
            jObj [("model", jOut o), ("spec", sp)])
  -- the scan of a status text on its own: the kernel's rendering of (before, tgid, after) per Spec/C04Status,
  -- the model's answer on those bytes, and the specification's (the two NUMBERS are equal) when well formed
  if op == "status_scan" then
    let n ← natF j "n"
    let t : Spec.StatusText := ⟨← listF asBytes j "before", ← natF j "tgid", ← listF asBytes j "after"⟩
    let jScan : ScanRes → Json := fun
      | .eq b => jObj [("kind", "eq"), ("v", Json.bool b)]
      | .valueError => jObj [("kind", "exc"), ("exc", "ValueError")]
      | .indexError => jObj [("kind", "exc"), ("exc", "IndexError")]
    let sp : Json := if t.wfb then jScan (.eq (t.tgid == n)) else Json.null
    return (d, jObj [("model", jScan (scanStatus t.render n)), ("spec", sp),
                     ("render", jBytes t.render)])
  -- one visit of process_iter(attrs=names) at the granularity of as_dict's OS accesses: the state of the process
  -- at each access instant (the last one persists), what a zombie's files give, the errno of a gone process's
  -- files, the files denied while alive; the model runs with the facts of THIS tree (scanProbe, scanSrcs)
  if op == "scan" then
    let parseLife : Json → R Life := fun x => do
      let t ← asStr x
      if t == "alive" then pure Life.alive else if t == "zombie" then pure Life.zombie
      else if t == "gone" then pure Life.gone else .error s!"unknown life state {t}"
    let parseRd : String → R Rd := fun t =>
      if t == "ok" then pure Rd.ok else if t == "empty" then pure Rd.empty else if t == "eacces" then pure Rd.eacces
      else if t == "esrch" then pure Rd.esrch else if t == "enoent" then pure Rd.enoent else .error s!"unknown access result {t}"
    let rdName : Rd → String := fun
      | .ok => "ok" | .empty => "empty" | .eacces => "eacces" | .esrch => "esrch" | .enoent => "enoent"
    let names ← listF asStr j "names"
    let life ← listF parseLife j "life"
    let zpairs ← listF (fun x => do
      let f ← strF x "f"
      let r ← strF x "r" >>= parseRd
      pure (f, r)) j "zres"
    let gesrch ← listF asBool j "gesrch"
    let deny ← listF asStr j "deny"
    let cold ← boolF j "cold"
    let aempty := ((optF (asList asStr) j "aempty").toOption.join).getD []
    let lastLife := life.getLast?.getD Life.alive
    let w : ScanWorld :=
      { life := fun i => life.getD i lastLife
        zres := fun f => ((zpairs.find? fun e => e.1 == f).map (·.2)).getD Rd.ok
        gesrch := fun i => gesrch.getD i false
        deny := fun f => deny.contains f
        aempty := fun f => aempty.contains f }
    let held := ((optF (asList asStr) j "held").toOption.join).getD []
    let (st, out) := if cold then visitScan scanProbe scanSrcs w cold names
                     else visitScanHeld scanProbe scanSrcs w held names
    let jOutV : VisitOut → Json := fun
      | .yielded items => jObj [("kind", "yielded"),
          ("items", jList (fun (x : String × Bool) => Json.arr #[Json.str x.1, Json.bool x.2]) items)]
      | .skipped => jObj [("kind", "skipped")]
      | .exc c => jObj [("kind", "exc"), ("exc", Json.str c)]
    let jAcc : Acc → Json := fun
      | .rd f r => Json.arr #[Json.str f, Json.str (rdName r)]
      | .ex b => Json.arr #[Json.str "exists", Json.bool b]
    let unknown := names.filter fun nm => decide (srcOf scanSrcs nm = Src.other)
    return (d, jObj [("model", jObj [("out", jOutV out), ("log", jList jAcc st.log), ("used", jNat st.i),
                                      ("unmodelled", jList Json.str unknown)]),
                     ("spec", jObj [("must_yield", Json.bool (Spec.mustYield life))])])
  if op == "pid_exists_arg" then
    let t ← strF j "t"
    let a : PyNum ← (
      if t == "bool" then do pure (PyNum.bool (← boolF j "v"))
      else if t == "float_neg" then pure PyNum.floatNeg
      else if t == "float_zero" then pure PyNum.floatZero
      else if t == "float_other" then pure PyNum.floatOther
      else .error s!"unknown argument kind {t}")
    let (m', mout) := pidExistsArg cfg d.m a
    -- the statement speaks about ints: a bool is one (0 / 1), a float is not (no promise)
    let (s', sout) : Spec.SSt × Option Out :=
      match a with
      | .bool b => Spec.sstep cfg.validNames cfg.noAccessAttrs d.s (.pidExists (if b then 1 else 0))
      | _ => (d.s, none)
    return (⟨m', s', d.mouts ++ [mout], d.souts ++ [sout]⟩,
            jObj [("model", jOut mout), ("spec", jOpt jOut sout)])
  let (mo, so) : Op × Op ← (
    if op == "kev" then do let e ← field j "ev" >>= parseKEv; pure (Op.kev e, Op.kev e)
    else if op == "pids" then pure (Op.pids, Op.pids)
    else if op == "pid_exists" then do let n ← intF j "n"; pure (Op.pidExists n, Op.pidExists n)
    else if op == "iter" then do let a ← field j "attrs" >>= parseAttrs; pure (Op.iter a, Op.iter a)
    else if op == "next" then do
      let g ← natF j "g"
      let mid ← listF parseKEv j "mid"
      pure (Op.next g mid, Op.next g mid)
    else if op == "close" then do let g ← natF j "g"; pure (Op.close g, Op.close g)
    else if op == "cache_clear" then pure (Op.cacheClear, Op.cacheClear)
    else if op == "is_running" then do
      let t ← natF j "at"
      let big := 1000000000
      pure (Op.isRunning ((refAt d.mouts t).getD big), Op.isRunning ((srefAt d.souts t).getD big))
    else .error s!"unknown op {op}")
  -- does this `next` start an iteration while `_pids_reused` is non-empty? (region of lead L19)
  let flaggedStart : Bool :=
    match mo with
    | .next g _ =>
      match d.m.gens[g]? with
      | some gen => decide (gen.st = .fresh) && !d.m.flagged.isEmpty
      | none => false
    | _ => false
  let (m', mout) := step cfg d.m mo
  let (s', sout) := Spec.sstep cfg.validNames cfg.noAccessAttrs d.s so
  return (⟨m', s', d.mouts ++ [mout], d.souts ++ [sout]⟩,
          jObj [("model", jOut mout), ("spec", jOpt jOut sout), ("flagged_start", Json.bool flaggedStart)])

def main : IO Unit := Proto.run DSt.init (total handle)
