/- Driver/C06.lean — line-protocol driver for the C06 model (see Base/Proto.lean).

   One line = one simulated process: kernel records (or raw malformed bytes) for its stat file,
   its status file and its threads. The driver renders the records with the Spec renderers,
   runs the model on the rendered bytes and prints: the files (so that the harness serves
   byte-identical files to the real code), the model's outcome per method, and what the
   specification promises (null where the record is outside the kernel's format). -/
import PsutilModel.Base.Proto
import PsutilModel.Model.C06Gen
import PsutilModel.Spec.C06
import PsutilModel.Spec.C06Ext
import PsutilModel.Spec.C06Hist
open Lean Psutil Psutil.Proto Psutil.C06

def natOfInt (what : String) (i : Int) : R Nat :=
  if i < 0 then .error s!"negative {what}" else .ok i.toNat

def parseStatRec (j : Json) : R Spec.StatRec := do
  let pid ← natF j "pid"
  let comm ← bytesF j "comm"
  let state ← natF j "state"
  let f ← listF asInt j "f"
  let tail ← optF (asList asNat) j "tail"
  if f.length != 38 then .error s!"f must have 38 entries, got {f.length}" else
  let i := fun (k : Nat) => f.getD k 0
  let n := fun (k : Nat) => natOfInt s!"field {k}" (f.getD k 0)
  let tail' ← (match tail with
    | none => pure none
    | some [] => .error "tail must have at least the blkio field"
    | some (b :: more) => pure (some (b, more)))
  pure { pid, comm, state, ppid := ← n 0, pgrp := ← n 1, session := ← n 2,
         ttyNr := ← n 3, tpgid := i 4, flags := ← n 5, minflt := ← n 6,
         cminflt := ← n 7, majflt := ← n 8, cmajflt := ← n 9,
         utime := ← n 10, stime := ← n 11, cutime := ← n 12, cstime := ← n 13,
         priority := i 14, nice := i 15, numThreads := ← n 16, itrealvalue := ← n 17,
         starttime := ← n 18, vsize := ← n 19, rss := ← n 20, rsslim := ← n 21,
         startcode := ← n 22, endcode := ← n 23, startstack := ← n 24,
         kstkesp := ← n 25, kstkeip := ← n 26, signal := ← n 27,
         blocked := ← n 28, sigignore := ← n 29, sigcatch := ← n 30,
         wchan := ← n 31, nswap := ← n 32, cnswap := ← n 33,
         exitSignal := i 34, processor := ← n 35,
         rtPriority := ← n 36, policy := ← n 37, tail := tail' }

def parseKV (j : Json) : R (Bytes × Bytes) :=
  match j.getArr? with
  | .ok #[k, v] => do pure (← asBytes k, ← asBytes v)
  | _ => .error "line must be [hexkey, hexvalue]"

def parse4 (j : Json) : R (Nat × Nat × Nat × Nat) := do
  match ← asList asNat j with
  | [a, b, c, d] => pure (a, b, c, d)
  | _ => .error "need 4 ids"

def parseStatusRec (j : Json) : R Spec.StatusRec := do
  pure { comm := ← bytesF j "comm", pre := ← listF parseKV j "pre",
         uid := ← field j "uid" >>= parse4, gid := ← field j "gid" >>= parse4,
         mid1 := ← listF parseKV j "mid1", threads := ← natF j "threads",
         mid2 := ← listF parseKV j "mid2", vol := ← natF j "vol", nonvol := ← natF j "nonvol" }

/-! decidable versions of the Spec's well-formedness side conditions -/

def hasInfix (p : Bytes) : Bytes → Bool
  | [] => p.isEmpty
  | c :: cs => p.isPrefixOf (c :: cs) || hasInfix p cs

def otherLineB (kv : Bytes × Bytes) : Bool :=
  kv.1 != Spec.keyUid && kv.1 != Spec.keyGid && kv.1 != Spec.keyThreads
    && !kv.1.contains 58 && !kv.1.contains 10 && !kv.2.contains 10

def noCtxHitB (l : Bytes) : Bool :=
  (List.range 10).all fun d => !hasInfix (Spec.ctxWord ++ [58, 9, 48 + d]) l

def wfStatusB (r : Spec.StatusRec) : Bool := (r.pre ++ r.mid1 ++ r.mid2).all otherLineB

def wfCtxB (r : Spec.StatusRec) : Bool :=
  decide (r.comm.length ≤ 15) &&
  (r.pre ++ r.mid1 ++ r.mid2).all fun kv => noCtxHitB (kv.1 ++ [58, 9] ++ kv.2)

/-! JSON of outcomes -/

def excName : Exc → String
  | .indexError => "IndexError"
  | .valueError => "ValueError"
  | .notImplementedError => "NotImplementedError"
  | .runtimeError => "RuntimeError"
  | .noSuchProcess => "NoSuchProcess"
  | .zeroDivisionError => "ZeroDivisionError"

def jRes (f : α → Json) : Res α → Json
  | .ok v => jObj [("ok", f v)]
  | .error e => jObj [("exc", Json.str (excName e))]

def jStatusOut : StatusOut → Json
  | .str s => Json.str s
  | .nonAscii => jObj [("nonascii", Json.bool true)]

def jCpu (c : CpuTimes) : Json :=
  Json.arr #[jRat c.user, jRat c.system, jRat c.childrenUser, jRat c.childrenSystem, jRat c.iowait]

def jCpuV (c : Spec.CpuTimesV) : Json :=
  Json.arr #[jRat c.user, jRat c.system, jRat c.childrenUser, jRat c.childrenSystem, jRat c.iowait]

def j3 (t : Nat × Nat × Nat) : Json := Json.arr #[jNat t.1, jNat t.2.1, jNat t.2.2]
def j2 (t : Nat × Nat) : Json := Json.arr #[jNat t.1, jNat t.2]
def jThread (t : ThreadOut) : Json := Json.arr #[jNat t.id, jRat t.userTime, jRat t.systemTime]
def jThreadV (t : Spec.ThreadV) : Json := Json.arr #[jNat t.id, jRat t.userTime, jRat t.systemTime]
def jOk (v : Json) : Json := jObj [("ok", v)]

def parseTmap (j : Json) : R (List (Int × Bytes)) :=
  asList (fun e => match e.getArr? with
    | .ok #[n, p] => do pure (← asInt n, ← asBytes p)
    | _ => .error "tmap entry must be [nr, hexpath]") j


/-! extension: /dev listing, /proc/stat world, task listing -/

def parseDevEntry (j : Json) : R (Bytes × Spec.NodeKind) :=
  match j.getArr? with
  | .ok #[p, k, r] => do
    let path ← asBytes p
    let kind ← asStr k
    let rdev ← asNat r
    if kind == "vanished" then pure (path, Spec.NodeKind.vanished)
    else if kind == "chr" then pure (path, Spec.NodeKind.chr rdev)
    -- anything that is not a character device: regular file ("other"/"reg"), directory, block device, fifo, socket
    else if ["other", "reg", "dir", "blk", "fifo", "sock"].contains kind then pure (path, Spec.NodeKind.other rdev)
    else .error s!"unknown node kind {kind}"
  | _ => .error "dev entry must be [hexpath, kind, rdev]"

/-- `os.stat` of a node (same mapping as `statOf` in Proofs/C06Ext.lean) -/
def statOfD : Spec.NodeKind → StatOut
  | .vanished => .notFound
  | .chr r => .node true r
  | .other r => .node false r

def osViewD (l : List (Bytes × Spec.NodeKind)) : List (Bytes × StatOut) := l.map fun e => (e.1, statOfD e.2)

/-- the acceptable answers of `Spec.TerminalOk`: every path of a character device with that number -/
def terminalAnswers (l : List (Bytes × Spec.NodeKind)) (nr : Nat) : List Bytes :=
  l.filterMap fun e => if e.2 = Spec.NodeKind.chr nr then some e.1 else none

def parseProcStatW (j : Json) : R Spec.ProcStatW := do
  pure { pre := ← listF asBytes j "pre", btime := ← natF j "btime", post := ← listF asBytes j "post" }

def wfProcStatB (w : Spec.ProcStatW) : Bool :=
  (w.pre ++ w.post).all (fun l => !l.contains 10) && w.pre.all (fun l => !Spec.keyBtime.isPrefixOf l)

def jAnyOf (l : List Bytes) : Json := jObj [("any_of", jList jBytes l)]

/-- `{"rec": …}` or `{"raw": hex}` -/
def recOrRaw (parse : Json → R α) (j : Json) : R (Sum α Bytes) :=
  match j.getObjVal? "rec" with
  | .ok r => (parse r).map Sum.inl
  | .error _ => (bytesF j "raw").map Sum.inr

/-- `{"dir": hex|null, "base": hex, "rest": [hex…]}`: argv[0] as a path + the other arguments -/
def parseCmdline (j : Json) : R (Spec.ExePath × List Bytes) := do
  pure ({ dir := ← optF asBytes j "dir", base := ← bytesF j "base" }, ← listF asBytes j "rest")

def handleProc (j : Json) : R Json := do
  let tck ← natF j "tck"
  let btime ← natF j "btime"
  let tmap ← field j "tmap" >>= parseTmap
  let stat ← field j "stat" >>= recOrRaw parseStatRec
  let status ← optF (recOrRaw parseStatusRec) j "status"
  let threadsAll ← listF (fun t => do
      match t.getObjVal? "vanished" with
      | .ok _ => do pure (← natF t "tid", (none : Option (Sum Spec.StatRec Bytes)))
      | .error _ =>
        match ← recOrRaw parseStatRec t with
        | .inl r => pure (r.pid, some (Sum.inl r))
        | .inr b => do pure (← natF t "tid", some (Sum.inr b))) j "threads"
  let threads : List (Nat × Sum Spec.StatRec Bytes) := threadsAll.filterMap fun (tid, o) => o.map fun v => (tid, v)
  -- threads that ended and show as ProcessLookupError (ESRCH from open/read) rather than FileNotFoundError
  let esrchOpt ← listF (fun t => do
      match t.getObjVal? "esrch" with
      | .ok _ => do pure (some (← natF t "tid"))
      | .error _ => pure (none : Option Nat)) j "threads"
  let esrchTids : List Nat := esrchOpt.filterMap id
  let dev ← optF (asList parseDevEntry) j "dev"
  let dev2 ← optF (asList parseDevEntry) j "dev2"
  let procstat ← optF parseProcStatW j "procstat"
  let procstat2 ← optF parseProcStatW j "procstat2"
  let listing ← optF (asList asNat) j "listing"
  let alive := (← optF asBool j "alive").getD true
  let cmdline ← optF parseCmdline j "cmdline"
  let arg0 : Option Spec.ExePath := cmdline.map (·.1)
  let cmdlineBytes : Bytes := match cmdline with
    | some (p, rest) => Spec.renderCmdline (p.render :: rest)
    | none => []
  -- files
  let statBytes := match stat with | .inl r => Spec.renderStat r | .inr b => b
  let statusBytes := status.map fun s => match s with | .inl r => Spec.renderStatus r | .inr b => b
  let thrFiles : List (Nat × Bytes) := threads.map fun (tid, t) =>
    (tid, match t with | .inl r => Spec.renderStat r | .inr b => b)
  let files := jObj [("stat", jBytes statBytes), ("status", jOpt jBytes statusBytes),
    ("threads", jList (fun (p : Nat × Bytes) => Json.arr #[jNat p.1, jBytes p.2]) thrFiles),
    ("cmdline", jBytes cmdlineBytes),
    ("procstat", jOpt jBytes (procstat.map Spec.renderProcStat)),
    ("procstat2", jOpt jBytes (procstat2.map Spec.renderProcStat))]
  -- model
  let mStat : List (String × Json) := [
    -- the PUBLIC name(): platform name + the cmdline rule of psutil/__init__.py; `proc_name` = the platform method
    ("name", jRes jBytes ((name cfg statBytes).map fun n => publicName xcfg n (arg0.map Spec.ExePath.render))),
    ("proc_name", jRes jBytes (name cfg statBytes)),
    ("ppid", jRes jInt (ppid cfg statBytes)),
    ("status", jRes jStatusOut (C06.status cfg statBytes)),
    ("cpu_times", jRes jCpu (cpuTimes cfg tck statBytes)),
    ("create_time", jRes jRat (match procstat with
      | some w => (createTimeCall cfg xcfg tck none (Spec.renderProcStat w) statBytes).1
      | none => createTime cfg tck (btime : Rat) statBytes)),
    ("cpu_num", jRes jInt (cpuNum cfg statBytes)),
    ("terminal", jRes (jOpt jBytes) (match dev with
      | some l => (terminalCall cfg xcfg none (osViewD l) statBytes).1
      | none => terminal cfg tmap statBytes)),
    ("threads", jRes (jList jThread) (match listing with
      | some ls => threadsCall cfg xcfg tck ls
          (fun t => match thrFiles.lookup t with
            | some b => TaskFile.content b
            | none => if esrchTids.contains t then TaskFile.esrch else TaskFile.vanished) alive
      | none => C06.threads cfg tck thrFiles))]
    ++ (match procstat, procstat2 with
      | some w, some w2 =>
        let c1 := (createTimeCall cfg xcfg tck none (Spec.renderProcStat w) statBytes).2
        let r2 := createTimeCall cfg xcfg tck c1 (Spec.renderProcStat w2) statBytes
        [("create_time_pinned", jRes jRat r2.1),
         -- the public boot_time() afterwards: re-reads /proc/stat whatever is pinned
         ("boot_time_now", jRes jRat (bootTimeCall xcfg r2.2 (Spec.renderProcStat w2)).1)]
      | _, _ => [])
    ++ (match dev, dev2 with
      | some l, some l2 =>
        let c1 := (terminalCall cfg xcfg none (osViewD l) statBytes).2
        [("terminal_stale", jRes (jOpt jBytes) (terminalCall cfg xcfg c1 (osViewD l2) statBytes).1)]
      | _, _ => [])
  let mStatus : List (String × Json) := match statusBytes with
    | none => []
    | some sb => [
      ("uids", jRes j3 (uids cfg sb)), ("gids", jRes j3 (gids cfg sb)),
      ("num_threads", jRes jNat (numThreads cfg sb)),
      ("num_ctx_switches", jRes j2 (numCtxSwitches cfg sb))]
  -- spec
  let sStat : List (String × Json) := match stat with
    | .inl r =>
      if Spec.isLetter r.state then [
        ("proc_name", jOk (jBytes (Spec.name r))),
        ("ppid", jOk (jInt (Spec.ppid r))),
        ("status", jOk (Json.str (Spec.status r))),
        ("cpu_times", jOk (jCpuV (Spec.cpuTimes tck r))),
        ("cpu_num", jOk (jInt (Spec.cpuNum r)))]
        ++ (match arg0 with
          | some p => if p.base.contains 47 then [] else [("name", jOk (jBytes (Spec.publicName r.comm arg0)))]
          | none => [("name", jOk (jBytes (Spec.publicName r.comm none)))])
        ++ (match procstat with
          | some w => if wfProcStatB w then [("create_time", jOk (jRat (Spec.createTime tck (w.btime : Rat) r)))]
              -- two calls in one interpreter (C06_create_time_two_calls, TimeOp.promised): the btime the FIRST
              -- call pinned, 0 included, whatever /proc/stat says at the second call
              ++ (match procstat2 with
                  | some w2 =>
                    [("create_time_pinned", jOk (jRat (Spec.createTime tck (w.btime : Rat) r)))]
                    -- C06_time_call_history: boot_time() returns the btime published at its own moment
                    ++ (if wfProcStatB w2 then [("boot_time_now", jOk (jRat (w2.btime : Rat)))] else [])
                  | none => [])
            else []
          | none => [("create_time", jOk (jRat (Spec.createTime tck (btime : Rat) r)))])
        ++ (match dev with
          | some l => [("terminal", jOk (jAnyOf (terminalAnswers l r.ttyNr)))]
          | none => [("terminal", jOk (jOpt jBytes (Spec.terminal tmap r)))])
        ++ (match dev, dev2 with
          -- histories: exact for the /dev of the FIRST call of the interpreter (C06_terminal_first_scan_wins)
          | some l, some _ => [("terminal_stale", jOk (jAnyOf (terminalAnswers l r.ttyNr)))]
          | _, _ => [])
      else []
    | .inr _ => []
  let thrRecs : Option (List Spec.StatRec) := threads.mapM fun (_, t) =>
    match t with
    | .inl r => if Spec.isLetter r.state then some r else none
    | .inr _ => none
  let sThr : List (String × Json) := match thrRecs with
    | some rs =>
      (match listing with
      | none => [("threads", jOk (jList jThreadV (rs.map (Spec.threadView tck))))]
      | some ls =>
        let order := ls.mergeSort fun a b => Spec.strLE (renderDec a) (renderDec b)
        let recs : Nat → Option Spec.StatRec := fun t => rs.find? (fun r => r.pid == t)
        let anyVanished := ls.any fun t => (recs t).isNone
        if anyVanished && !alive then [("threads", Proto.exc "NoSuchProcess")]
        else [("threads", jOk (jList jThreadV (Spec.threadsValue tck order recs)))])
    | none => []
  let sStatus : List (String × Json) := match status with
    | some (.inl r) =>
      (if wfStatusB r then [
        ("uids", jOk (j3 (Spec.uids r))), ("gids", jOk (j3 (Spec.gids r))),
        ("num_threads", jOk (jNat (Spec.numThreads r)))] else [])
      ++ (if wfStatusB r && wfCtxB r then
        [("num_ctx_switches", jOk (j2 (Spec.numCtxSwitches r)))] else [])
    | _ => []
  pure (jObj [("files", files), ("model", jObj (mStat ++ mStatus)),
              ("spec", jObj (sStat ++ sThr ++ sStatus))])

/-! histories on one Process object (Model/C06Hist.lean, Spec/C06Hist.lean) -/

def parseGetter (s : String) : R Getter :=
  match allGetters.find? (fun g => g.pyName == s) with
  | some g => .ok g
  | none => .error s!"unknown getter {s}"

def parseProcRec (j : Json) : R Spec.ProcRec := do
  pure { stat := ← field j "stat" >>= parseStatRec, status := ← field j "status" >>= parseStatusRec }

/-- `"enter"`, `{"leave": bool}`, `{"get": name}`, `{"publish": {"stat": rec, "status": rec}}` -/
def parseEv (j : Json) : R (Ev Spec.ProcRec) :=
  match j.getStr? with
  | .ok "enter" => .ok .enter
  | .ok s => .error s!"unknown event {s}"
  | .error _ =>
    match j.getObjVal? "leave" with
    | .ok b => do pure (.leave (← asBool b))
    | .error _ =>
      match j.getObjVal? "get" with
      | .ok g => do pure (.get (← asStr g >>= parseGetter))
      | .error _ =>
        match j.getObjVal? "publish" with
        | .ok r => do pure (.publish (← parseProcRec r))
        | .error _ => .error "event must be \"enter\", {leave}, {get} or {publish}"

def jOut : Out → Json
  | .bytes b => jBytes b
  | .int i => jInt i
  | .st s => jStatusOut s
  | .cpu c => jCpu c
  | .obytes o => jOpt jBytes o
  | .ids t => j3 t
  | .nat n => jNat n
  | .pair p => j2 p

def jOutV : Spec.OutV → Json
  | .bytes b => jBytes b
  | .int i => jInt i
  | .str s => Json.str s
  | .cpu c => jCpuV c
  | .obytes o => jOpt jBytes o
  | .ids t => j3 t
  | .nat n => jNat n
  | .pair p => j2 p

def wfProcRecB (r : Spec.ProcRec) : Bool :=
  Spec.isLetter r.stat.state && wfStatusB r.status && wfCtxB r.status

def worldOf (r : Spec.ProcRec) : World := ⟨Spec.renderStat r.stat, Spec.renderStatus r.status⟩

def handleHist (j : Json) : R Json := do
  let tck ← natF j "tck"
  let tmap ← field j "tmap" >>= parseTmap
  let init ← field j "init" >>= parseProcRec
  let evs ← listF parseEv j "events"
  let recs := init :: Spec.published evs
  let jWorld := fun (r : Spec.ProcRec) =>
    jObj [("stat", jBytes (Spec.renderStat r.stat)), ("status", jBytes (Spec.renderStatus r.status))]
  -- model: the history run on the rendered files
  let obs := run hcfg ⟨cfg, tck, tmap⟩ (HState.fresh (worldOf init)) (evs.map (Ev.map worldOf))
  -- specification: per `get`, the exact reports of the records it may speak about (outside a block: the current one)
  let ok := recs.all wfProcRecB && tck != 0
  let allowedV := Spec.allowed (Spec.viewV ⟨tck, tmap⟩) ⟨init, none⟩ evs
  pure (jObj [("files", jObj [("worlds", jList jWorld recs)]),
              ("model", jList (jRes jOut) obs),
              ("spec", if ok then jList (fun vs => jObj [("any_of", jList jOutV vs)]) allowedV else Json.null)])

def handle (_ : Unit) (j : Json) : R (Unit × Json) := do
  let op ← strF j "op"
  if op == "proc" then
    return ((), ← handleProc j)
  if op == "hist" then
    return ((), ← handleHist j)
  .error s!"unknown op {op}"

def main : IO Unit := Proto.run () (total handle)
