/- Driver/C01.lean — line-protocol driver for the C01 check: the identity machine with the
   configuration extracted into Generated/C01.lean, run over the BYTES of /proc/<pid>/stat with the extracted
   reader (core: Model/C01Driver.lean + Model/C01StatDriver.lean). -/
import PsutilModel.Model.C01StatDriver
import PsutilModel.Model.C01Gen

def main : IO Unit := Psutil.C01.Drv.driverMainB Psutil.C01.scfg Psutil.C01.cfg
