/- Driver/C01.lean — line-protocol driver for the C01 check: the identity machine with the
   configuration extracted into Generated/C01.lean (core: Model/C01Driver.lean). -/
import PsutilModel.Model.C01Driver
import PsutilModel.Model.C01Gen

def main : IO Unit := Psutil.C01.Drv.driverMain Psutil.C01.cfg
