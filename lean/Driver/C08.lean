/- Driver/C08.lean — line-protocol driver for the C08 model (see Base/Proto.lean).

   ops (one JSON object per line):
     vm      entries=[[namehex,val,pad,unit]…] zones=null|[["low",indent,pad,v]|["other",indent,bodyhex]…]
             pagesize=n      → rendered files + model(rendered text) + spec(abstract maps)
     vmraw   meminfo=hex zoneinfo=hex|null pagesize=n          → model only (malformed text)
     swap    entries=… sysinfo=[total,free,unit] vmstat=null|[[namehex,val]…]
     swapraw meminfo=hex sysinfo=[…] vmstat=hex|null           → model only
-/
import PsutilModel.Base.Proto
import PsutilModel.Model.C08Gen
import PsutilModel.Spec.C08
open Lean Psutil Psutil.Proto Psutil.C08

def jStrList (l : List String) : Json := jList Json.str l

def jErr : Err → Json
  | .indexError => jObj [("kind", "exc"), ("exc", "IndexError")]
  | .valueError => jObj [("kind", "exc"), ("exc", "ValueError")]
  | .keyError _ => jObj [("kind", "exc"), ("exc", "KeyError")]

/-- record as the constructor call lays it out: positional field name ↦ the variable passed -/
def jLayout (layout : List (String × String)) (var : String → Option Int) (digits : Nat) : Json :=
  jObj (layout.map fun (field, v) =>
    match var v with
    | none => (field, Json.null)
    | some x => if v == "percent" then (field, Json.arr #[jInt x, jNat (10 ^ digits)]) else (field, jInt x))

def jVmModel : Except Err VmOut → Json
  | .error e => jErr e
  | .ok o => jObj [("kind", "ok"), ("fields", jLayout cfg.svmemLayout o.var cfg.vmRound),
                   ("missing", jStrList o.missing)]

def jVmSpec : Option Spec.Vm → Json
  | none => jObj [("kind", "nopromise")]
  | some s => jObj [("kind", "ok"),
      ("fields", jObj [("total", jNat s.total), ("available", jInt s.available),
        ("percent", jRat s.percentExact), ("used", jInt s.used), ("free", jNat s.free),
        ("active", jNat s.active), ("inactive", jNat s.inactive), ("buffers", jNat s.buffers),
        ("cached", jNat s.cached), ("shared", jNat s.shared), ("slab", jNat s.slab)]),
      ("missing", jStrList s.warned)]

def jSwapModel : Except Err SwapOut → Json
  | .error e => jErr e
  | .ok o => jObj [("kind", "ok"), ("fields", jLayout cfg.sswapLayout o.var cfg.swRound),
                   ("warned", Json.bool o.warned), ("sysinfo", Json.bool o.usedSysinfo)]

def jSwapSpec (s : Spec.Swap) : Json :=
  jObj [("kind", "ok"),
    ("fields", jObj [("total", jNat s.total), ("used", jInt s.used), ("free", jNat s.free),
      ("percent", jRat s.percentExact), ("sin", jNat s.sin), ("sout", jNat s.sout)]),
    ("warned", Json.bool s.warned), ("sysinfo", Json.bool s.viaSysinfo)]

def asEntry (j : Json) : R Spec.Entry :=
  match j.getArr? with
  | .ok #[n, v, p, u] => do
    pure ⟨← asBytes n, ← asNat v, ← asNat p, ← asBool u⟩
  | _ => .error "entry must be [namehex, val, pad, unit]"

def asZLine (j : Json) : R Spec.ZLine :=
  match j.getArr? with
  | .ok #[k, a, b, c] => do
    if (← asStr k) == "low" then pure (.low (← asNat a) (← asNat b) (← asNat c))
    else .error "bad zone line"
  | .ok #[k, a, b] => do
    if (← asStr k) == "other" then pure (.other (← asNat a) (← asBytes b))
    else .error "bad zone line"
  | _ => .error "zone line must be [low,i,p,v] or [other,i,bodyhex]"

def asVLine (j : Json) : R Spec.VLine :=
  match j.getArr? with
  | .ok #[n, v] => do pure ⟨← asBytes n, ← asNat v⟩
  | _ => .error "vmstat line must be [namehex, val]"

def asSysinfo (j : Json) : R Sysinfo :=
  match j.getArr? with
  | .ok #[t, f, u] => do pure ⟨← asNat t, ← asNat f, ← asNat u⟩
  | _ => .error "sysinfo must be [total, free, unit]"

def handle (_ : Unit) (j : Json) : R (Unit × Json) := do
  let op ← strF j "op"
  if op == "vm" then
    let es ← listF asEntry j "entries"
    let zs ← optF (asList asZLine) j "zones"
    let ps ← natF j "pagesize"
    let meminfo := Spec.renderMeminfo es
    let zoneinfo := zs.map Spec.renderZoneinfo
    let model := virtualMemory cfg ps meminfo zoneinfo
    let spec := Spec.vm (Spec.MemInfo.ofEntries es) (zs.map fun z => Spec.lowSum z * ps)
    return ((), jObj [("meminfo", jBytes meminfo), ("zoneinfo", jOpt jBytes zoneinfo),
                      ("model", jVmModel model), ("spec", jVmSpec spec)])
  else if op == "vmraw" then
    let meminfo ← bytesF j "meminfo"
    let zoneinfo ← optF asBytes j "zoneinfo"
    let ps ← natF j "pagesize"
    return ((), jObj [("model", jVmModel (virtualMemory cfg ps meminfo zoneinfo)), ("spec", Json.null)])
  else if op == "swap" then
    let es ← listF asEntry j "entries"
    let sys ← field j "sysinfo" >>= asSysinfo
    let vs ← optF (asList asVLine) j "vmstat"
    let meminfo := Spec.renderMeminfo es
    let vmstat := vs.map Spec.renderVmstat
    let model := swapMemory cfg meminfo sys vmstat
    let spec := Spec.swap (Spec.MemInfo.ofEntries es) (sys.total * sys.unit) (sys.free * sys.unit)
      (vs.map Spec.vmstatGet)
    return ((), jObj [("meminfo", jBytes meminfo), ("vmstat", jOpt jBytes vmstat),
                      ("model", jSwapModel model), ("spec", jSwapSpec spec)])
  else if op == "swapraw" then
    let meminfo ← bytesF j "meminfo"
    let sys ← field j "sysinfo" >>= asSysinfo
    let vmstat ← optF asBytes j "vmstat"
    return ((), jObj [("model", jSwapModel (swapMemory cfg meminfo sys vmstat)), ("spec", Json.null)])
  else .error s!"unknown op {op}"

def main : IO Unit := Proto.run () (total handle)
