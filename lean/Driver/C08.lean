/- Driver/C08.lean — line-protocol driver for the C08 model (see Base/Proto.lean).

   ops (one JSON object per line):
     vm      entries=[[namehex,val,pad,unit]…] zones=null|[["low",indent,pad,v]|["other",indent,bodyhex]…]
             pagesize=n      → rendered files + model(rendered text) + spec(abstract maps)
     vmraw   meminfo=hex zoneinfo=hex|null pagesize=n          → model only (malformed text)
     swap    entries=… sysinfo=[…7 members…] vmstat=null|[[namehex,val]…] pagesize=n
             → model = swap_memory() in a process whose PAGESIZE is n (`cfgAt n`); spec = bytes =
               pages × n; `codepage` = bytes per page the code uses (4096, or n once it says PAGESIZE)
     swapraw meminfo=hex sysinfo=[…] vmstat=hex|null pagesize=n  → model only
     sysinfo = the seven members of `struct sysinfo` in the kernel's order
               [totalram, freeram, bufferram, sharedram, totalswap, freeswap, mem_unit]; the driver
               lays them out as arch/linux/mem.c does and unpacks them as swap_memory() does
     phymem  entries1, entries2 (+ zones/pagesize), st0=null|n  → `_TOTAL_PHYMEM` after
             virtual_memory() on world 1, and the total memory_percent() then uses on world 2
     raw ops also answer `fail`: the characterisation proved in Props (vmFail / meminfoFail)
-/
import PsutilModel.Base.Proto
import PsutilModel.Model.C08Gen
import PsutilModel.Spec.C08
import PsutilModel.Proofs.C08Text
open Lean Psutil Psutil.Proto Psutil.C08

def jStrList (l : List String) : Json := jList Json.str l

def jErr : Err → Json
  | .indexError => jObj [("kind", "exc"), ("exc", "IndexError")]
  | .valueError => jObj [("kind", "exc"), ("exc", "ValueError")]
  | .keyError _ => jObj [("kind", "exc"), ("exc", "KeyError")]
  | .negLiteral => jObj [("kind", "declined"), ("why", "int() returned a negative number")]

def jFail : Option Err → Json
  | none => Json.null
  | some e => jErr e

/-- record as the constructor call lays it out: positional field name ↦ the variable passed -/
def jLayout (layout : List (String × String)) (var : String → Option Int) (digits : Nat) : Json :=
  jObj (layout.map fun (field, v) =>
    match var v with
    | none => (field, Json.null)
    | some x => if v == "percent" then (field, Json.arr #[jInt x, jNat (10 ^ digits)]) else (field, jInt x))

def jVmModel : Except Err VmOut → Json
  | .error e => jErr e
  | .ok o => jObj [("kind", "ok"), ("fields", jLayout cfg.svmemLayout o.var cfg.vmRound),
                   ("missing", jStrList o.missing)]

def jVmSpec : Option Spec.Vm → Json
  | none => jObj [("kind", "nopromise")]
  | some s => jObj [("kind", "ok"),
      ("fields", jObj [("total", jNat s.total), ("available", jInt s.available),
        ("percent", jRat s.percentExact), ("used", jInt s.used), ("free", jNat s.free),
        ("active", jNat s.active), ("inactive", jNat s.inactive), ("buffers", jNat s.buffers),
        ("cached", jNat s.cached), ("shared", jNat s.shared), ("slab", jNat s.slab)]),
      ("missing", jStrList s.warned)]

def jSwapModel : Except Err SwapOut → Json
  | .error e => jErr e
  | .ok o => jObj [("kind", "ok"), ("fields", jLayout cfg.sswapLayout o.var cfg.swRound),
                   ("warned", Json.bool o.warned), ("sysinfo", Json.bool o.usedSysinfo)]

def jSwapSpec (s : Spec.Swap) : Json :=
  jObj [("kind", "ok"),
    ("fields", jObj [("total", jNat s.total), ("used", jInt s.used), ("free", jNat s.free),
      ("percent", jRat s.percentExact), ("sin", jNat s.sin), ("sout", jNat s.sout)]),
    ("warned", Json.bool s.warned), ("sysinfo", Json.bool s.viaSysinfo)]

def asEntry (j : Json) : R Spec.Entry :=
  match j.getArr? with
  | .ok #[n, v, p, u] => do
    pure ⟨← asBytes n, ← asNat v, ← asNat p, ← asBool u⟩
  | _ => .error "entry must be [namehex, val, pad, unit]"

def asZLine (j : Json) : R Spec.ZLine :=
  match j.getArr? with
  | .ok #[k, a, b, c] => do
    if (← asStr k) == "low" then pure (.low (← asNat a) (← asNat b) (← asNat c))
    else .error "bad zone line"
  | .ok #[k, a, b] => do
    if (← asStr k) == "other" then pure (.other (← asNat a) (← asBytes b))
    else .error "bad zone line"
  | _ => .error "zone line must be [low,i,p,v] or [other,i,bodyhex]"

def asVLine (j : Json) : R Spec.VLine :=
  match j.getArr? with
  | .ok #[n, v] => do pure ⟨← asBytes n, ← asNat v⟩
  | _ => .error "vmstat line must be [namehex, val]"

def asSysinfoC (j : Json) : R SysinfoC :=
  match j.getArr? with
  | .ok #[a, b, c, d, e, f, g] => do
    pure ⟨← asNat a, ← asNat b, ← asNat c, ← asNat d, ← asNat e, ← asNat f, ← asNat g⟩
  | _ => .error "sysinfo must be the 7 members of struct sysinfo"

/-- C side (Py_BuildValue order) then Python side (tuple unpacking) -/
def asSysinfo (j : Json) : R (SysinfoC × Sysinfo) := do
  let s ← asSysinfoC j
  match sysView cfg (s.tuple cfg.sysCOrder) with
  | some v => pure (s, v)
  | none => .error "the native tuple does not have the arity swap_memory() unpacks"

def jOptInt : Option Int → Json
  | none => Json.null
  | some i => jInt i

def handle (_ : Unit) (j : Json) : R (Unit × Json) := do
  let op ← strF j "op"
  if op == "vm" then
    let es ← listF asEntry j "entries"
    let zs ← optF (asList asZLine) j "zones"
    let ps ← natF j "pagesize"
    let meminfo := Spec.renderMeminfo es
    let zoneinfo := zs.map Spec.renderZoneinfo
    let model := virtualMemory cfg ps meminfo zoneinfo
    let spec := Spec.vm (Spec.MemInfo.ofEntries es) (zs.map fun z => Spec.lowSum z * ps)
    return ((), jObj [("meminfo", jBytes meminfo), ("zoneinfo", jOpt jBytes zoneinfo),
                      ("model", jVmModel model), ("spec", jVmSpec spec)])
  else if op == "vmraw" then
    let meminfo ← bytesF j "meminfo"
    let zoneinfo ← optF asBytes j "zoneinfo"
    let ps ← natF j "pagesize"
    return ((), jObj [("model", jVmModel (virtualMemory cfg ps meminfo zoneinfo)), ("spec", Json.null),
                      ("fail", jFail (vmFail meminfo zoneinfo))])
  else if op == "swap" then
    let es ← listF asEntry j "entries"
    let (sc, sys) ← field j "sysinfo" >>= asSysinfo
    let vs ← optF (asList asVLine) j "vmstat"
    let ps ← natF j "pagesize"
    let meminfo := Spec.renderMeminfo es
    let vmstat := vs.map Spec.renderVmstat
    let model := swapMemory (cfgAt ps) meminfo sys vmstat
    let spec := Spec.swap (Spec.MemInfo.ofEntries es) (sc.totalswap * sc.mem_unit)
      (sc.freeswap * sc.mem_unit) ps (vs.map Spec.vmstatGet)
    return ((), jObj [("meminfo", jBytes meminfo), ("vmstat", jOpt jBytes vmstat),
                      ("model", jSwapModel model), ("spec", jSwapSpec spec),
                      ("codepage", jNat (if swapPages then ps else 4096))])
  else if op == "swapraw" then
    let meminfo ← bytesF j "meminfo"
    let (_, sys) ← field j "sysinfo" >>= asSysinfo
    let vmstat ← optF asBytes j "vmstat"
    let ps ← natF j "pagesize"
    return ((), jObj [("model", jSwapModel (swapMemory (cfgAt ps) meminfo sys vmstat)), ("spec", Json.null),
                      ("fail", jFail (meminfoFail meminfo))])
  else if op == "phymem" then
    let es1 ← listF asEntry j "entries1"
    let es2 ← listF asEntry j "entries2"
    let st0 ← optF asNat j "st0"
    let r1 := virtualMemory cfg 4096 (Spec.renderMeminfo es1) none
    let r2 := virtualMemory cfg 4096 (Spec.renderMeminfo es2) none
    let (st1, _) := frontVm cfg (st0.map Int.ofNat) r1
    let (st2, used) := memPercentTotal cfg st1 r2
    return ((), jObj [("meminfo1", jBytes (Spec.renderMeminfo es1)), ("meminfo2", jBytes (Spec.renderMeminfo es2)),
                      ("run1", jVmModel r1), ("primed", jOptInt st1), ("used_total", jOptInt used),
                      ("after", jOptInt st2),
                      ("spec_total1", match (Spec.MemInfo.ofEntries es1).bytes "MemTotal" with
                                      | some t => jNat t | none => Json.null)])
  else .error s!"unknown op {op}"

def main : IO Unit := Proto.run () (total handle)
