/- Driver/C12.lean — line-protocol driver for the C12 model (see Base/Proto.lean).

   in : {"op":"reset"}  |  {"op":"step","call":"cmdline|environ|exe|cwd|name|username|terminal","w":{world},
                            "block":{"stat":[hexname,tty]|null,"uid":nat|null}?}
        `block` = what the enclosing oneshot() block has cached (absent: not in a block / nothing cached):
        the model answers with `stepIn`, the specification is asked about `block.view world`
   world: {"dir":bool,"zombie":bool,"comm":hex,"cmdline":F,"environ":F,"exe":L,"cwd":L,"fs":[[hex,kind],…],
           "uid":nat?,"tty":nat?,"users":[[uid,hex],…]?,"ttys":[[nr,hex],…]?,
           "stat":"ok|missing|denied"?}   (`/proc/<pid>/stat` itself; absent = ok while `dir`)
          F = {"data":hex} | {"err":"ENOENT|ESRCH|EACCES"},  L = {"target":hex} | {"err":…}
          kind = "absent"|"denied"|"dir"|"file"|"filex"   (paths not listed are absent)
          or [hex, "unstatable", errno, class]: os.stat fails with that errno, raised as that OSError (sub)class
          (any of CPython's but FileNotFoundError / PermissionError, which are `absent` / `denied`)
        | {"op":"many","call":"cmdline|environ","zombie":bool,"blocks":[hex,…]}
        the stateless calls on many file contents at once (exhaustive small enumerations): for each block the
        world is a live/zombie process whose cmdline resp. environ file holds exactly these bytes
        → {"many":[{"model": out, "spec": out | null}, …]}
        | {"op":"kernel","areas":[[hex argArea, hex envArea],…]} → {"kernel":[hex,…]}  (`Spec.kernelCmdline`: what
        the kernel exposes for this memory; ties the harness's kernel simulator to the definition the theorem
        C12_cmdline_setproctitle is about)
   out: {"model": out, "spec": out | null}
   out: {"kind":"ok","args":[hex…]} | {"kind":"ok","dict":[[hex,hex]…]} | {"kind":"ok","str":hex}
        | {"kind":"ok","opt":hex|null}
        | {"kind":"exc","exc":"NoSuchProcess|ZombieProcess|AccessDenied|FileNotFoundError"}
        | {"kind":"exc","exc":"OSError","errno":n}   (an OSError of any other class that no layer translated) -/
import PsutilModel.Base.Proto
import PsutilModel.Model.C12Gen
import PsutilModel.Spec.C12
open Lean Psutil Psutil.Proto Psutil.C12

structure DSt where
  st : St
  exeWorlds : List World      -- worlds of the earlier exe() calls, oldest first

def parseErr (s : String) : R Err :=
  if s == "ENOENT" then .ok .enoent else if s == "ESRCH" then .ok .esrch
  else if s == "EACCES" then .ok .eacces else .error s!"bad errno {s}"

def parseFile (j : Json) : R FileSt :=
  match j.getObjVal? "data" with
  | .ok v => (asBytes v).map FileSt.data
  | .error _ => (strF j "err" >>= parseErr).map FileSt.err

def parseLink (j : Json) : R LinkSt :=
  match j.getObjVal? "target" with
  | .ok v => (asBytes v).map LinkSt.target
  | .error _ => (strF j "err" >>= parseErr).map LinkSt.err

def parseEnt (s : String) : R FsEnt :=
  if s == "absent" then .ok .absent else if s == "denied" then .ok .denied
  else if s == "dir" then .ok .dir else if s == "file" then .ok (.file false)
  else if s == "filex" then .ok (.file true) else .error s!"bad fs kind {s}"

/-- the class of a failing `os.stat` by its Python name. FileNotFoundError and PermissionError are refused: they
    have kinds of their own (`absent`, `denied`), so that every world has one JSON form -/
def parseOsCls (s : String) : R OsCls :=
  match OsCls.all.find? (fun c => c.name == s) with
  | some .fileNotFound => .error "stat failure FileNotFoundError: use kind absent"
  | some .permission => .error "stat failure PermissionError: use kind denied"
  | some c => .ok c
  | none => .error s!"unknown OSError class {s}"

def parseFsEntry (e : Json) : R (Bytes × FsEnt) :=
  match e.getArr? with
  | .ok #[p, k] => do
    let p ← asBytes p
    let k ← asStr k >>= parseEnt
    pure (p, k)
  | .ok #[p, k, en, cls] => do
    let p ← asBytes p
    let k ← asStr k
    if k != "unstatable" then throw s!"bad 4-field fs kind {k}"
    let en ← asNat en
    let cls ← asStr cls >>= parseOsCls
    pure (p, .unstatable en cls)
  | _ => .error "fs entry must be [hexpath, kind] or [hexpath, \"unstatable\", errno, class]"

def parseNatBytes (e : Json) : R (Nat × Bytes) :=
  match e.getArr? with
  | .ok #[n, b] => do
    let n ← asNat n
    let b ← asBytes b
    pure (n, b)
  | _ => .error "entry must be [nat, hex]"

def parseWorld (j : Json) : R World := do
  let dir ← boolF j "dir"
  let z ← boolF j "zombie"
  let comm ← bytesF j "comm"
  let cl ← field j "cmdline" >>= parseFile
  let en ← field j "environ" >>= parseFile
  let ex ← field j "exe" >>= parseLink
  let cw ← field j "cwd" >>= parseLink
  let fs ← listF parseFsEntry j "fs"
  let uid ← optF asNat j "uid"
  let tty ← optF asNat j "tty"
  let users ← optF (asList parseNatBytes) j "users"
  let ttys ← optF (asList parseNatBytes) j "ttys"
  let stat ← optF asStr j "stat"
  let stat := stat.getD "ok"
  if stat != "ok" && stat != "missing" && stat != "denied" then
    throw s!"bad stat state {stat}"
  pure { dirExists := dir, statExists := dir && stat != "missing", statReadable := dir && stat == "ok", zombie := z, comm := comm, cmdline := cl, environ := en, exe := ex,
         cwd := cw, fs := fun p => (fs.lookup p).getD .absent,
         uid := uid.getD 0, tty := tty.getD 0,
         users := fun u => (users.getD []).lookup u, ttys := fun t => (ttys.getD []).lookup t }

def parseBlock (j : Json) : R Block := do
  let st ← optF (fun v => match v.getArr? with
      | .ok #[n, t] => do
        let n ← asBytes n
        let t ← asNat t
        pure (n, t)
      | _ => .error "block.stat must be [hexname, tty]") j "stat"
  let uid ← optF asNat j "uid"
  pure ⟨st, uid⟩

def parseCall (s : String) : R Call :=
  if s == "cmdline" then .ok .cmdline else if s == "environ" then .ok .environ
  else if s == "exe" then .ok .exe else if s == "cwd" then .ok .cwd
  else if s == "name" then .ok .name else if s == "username" then .ok .username
  else if s == "terminal" then .ok .terminal else .error s!"bad call {s}"

def excName : Exc → String
  | .noSuchProcess => "NoSuchProcess"
  | .zombieProcess => "ZombieProcess"
  | .accessDenied => "AccessDenied"
  | .fileNotFound => "FileNotFoundError"
  | .osError _ => "OSError"

def jRes (key : String) (f : α → Json) : Res α → Json
  | .ok v => jObj [("kind", "ok"), (key, f v)]
  | .error (.osError en) => jObj [("kind", "exc"), ("exc", Json.str "OSError"), ("errno", jNat en)]
  | .error e => jObj [("kind", "exc"), ("exc", Json.str (excName e))]

def jOut : Out → Json
  | .args r => jRes "args" (jList jBytes) r
  | .dict r => jRes "dict" (jList fun kv => Json.arr #[jBytes kv.1, jBytes kv.2]) r
  | .str r => jRes "str" jBytes r
  | .opt r => jRes "opt" (jOpt jBytes) r

def handle (d : DSt) (j : Json) : R (DSt × Json) := do
  let op ← strF j "op"
  if op == "reset" then
    return (⟨St.init, []⟩, ok (Json.str "reset"))
  if op == "many" then
    let c ← strF j "call" >>= parseCall
    if c != Call.cmdline && c != Call.environ then
      throw "op many: call must be cmdline or environ"
    let z ← boolF j "zombie"
    let blocks ← listF asBytes j "blocks"
    let base : World :=
      { dirExists := true, zombie := z, comm := [112], cmdline := .data [], environ := .data [],
        exe := .err .enoent, cwd := .err .enoent, fs := fun _ => .absent }
    let one (b : Bytes) : Json :=
      let w : World := if c == Call.cmdline then { base with cmdline := .data b } else { base with environ := .data b }
      jObj [("model", jOut (step cfg St.init w c).2), ("spec", jOpt jOut (Spec.call [] w c))]
    return (d, jObj [("many", jList one blocks)])
  if op == "kernel" then
    let areas ← listF (fun v => match v.getArr? with
      | .ok #[x, y] => do
        let x ← asBytes x
        let y ← asBytes y
        pure (x, y)
      | _ => .error "area must be [hex, hex]") j "areas"
    return (d, jObj [("kernel", jList (fun p => jBytes (Spec.kernelCmdline p.1 p.2)) areas)])
  if op != "step" then
    throw s!"unknown op {op}"
  let c ← strF j "call" >>= parseCall
  let w ← field j "w" >>= parseWorld
  let b ← optF parseBlock j "block"
  let b := b.getD Block.empty
  let (st', out) := stepIn cfg b d.st w c
  let wv := b.view w
  let spec := Spec.call d.exeWorlds wv c
  let ews := if c == Call.exe then d.exeWorlds ++ [wv] else d.exeWorlds
  return (⟨st', ews⟩, jObj [("model", jOut out), ("spec", jOpt jOut spec)])

def main : IO Unit := Proto.run (⟨St.init, []⟩ : DSt) (total handle)
