/- Driver/C07.lean — line-protocol driver for the C07 model (see Base/Proto.lean). -/
import PsutilModel.Base.Proto
import PsutilModel.Model.C07Gen
import PsutilModel.Spec.C07
import PsutilModel.Spec.C07Ext
import Std.Data.HashMap
open Lean Psutil Psutil.Proto Psutil.C07

/-- the calls made so far, filed by (function, variant, thread): `Spec.expected` of a call looks at the
    calls of its own key only (`C07_own_history_only`), so the driver hands it that sub-history — a history
    with thousands of threads is then answered in time proportional to the caller's own calls -/
abbrev HistBy := Std.HashMap Nat (List Call)

def famIdx (f : Fam) : Nat := (match f.fn with | .percent => 0 | .timesPercent => 2) + (if f.percpu then 1 else 0)

def histKey (c : Call) : Nat := c.tid * 4 + famIdx c.fam

def HistBy.of (h : HistBy) (c : Call) : List Call := (h.get? (histKey c)).getD []

def HistBy.add (h : HistBy) (c : Call) : HistBy := h.insert (histKey c) (h.of c ++ [c])

/-- `sample e` with the results remembered for the reads of the calls at hand (the five readings of the
    specification — rounded, exact, totals, lengths, thread-keyed — parse the same snapshots): the same function,
    evaluated once per snapshot -/
def memoRd (e : Env) (tab : List ((Bool × Bytes) × Thunk (PRes Stored))) (pc : Bool) (r : Bytes) : PRes Stored :=
  match tab.find? (fun p => p.1.1 == pc && p.1.2 == r) with
  | some p => p.2.get
  | none => sample e pc r

def memoTab (e : Env) (cs : List Call) : List ((Bool × Bytes) × Thunk (PRes Stored)) :=
  cs.flatMap fun c => c.reads.map fun r => ((c.percpu, r), Thunk.mk fun _ => sample e c.percpu r)

structure DSt where
  cst : CSt             -- the four dictionaries as containers (Model: `cstep`, retention `cfg.storeBound`)
  pst : PSt
  hist : HistBy         -- chronological per key, filed under the identifier (`tid`)
  phist : List PCall
  histT : HistBy        -- the same calls filed under the calling THREAD (`thr`, default = `tid`)
  imp : Option (Tid × Bytes × Bytes)   -- importing thread and the two import-time reads

def DSt.init : DSt := ⟨CSt.init, PSt.init, {}, [], {}, none⟩

def asRat (j : Json) : R Rat :=
  match j.getArr? with
  | .ok #[n, d] => do
    let n ← asInt n
    let d ← asNat d
    if d = 0 then .error "zero denominator" else pure ((n : Rat) / (d : Rat))
  | _ => .error s!"not a rational [num, den]: {j.compress}"

def jRats (l : List Rat) : Json := jList jRat l

def jVal : Val → Json
  | .num v => jObj [("k", "num"), ("v", jRat v)]
  | .nums vs => jObj [("k", "nums"), ("v", jRats vs)]
  | .tup vs => jObj [("k", "tup"), ("v", jRats vs)]
  | .tups vs => jObj [("k", "tups"), ("v", jList jRats vs)]

def excName : Exc → String
  | .valueError => "ValueError"
  | .typeError => "TypeError"
  | .attributeError => "AttributeError"
  | .zeroDivisionError => "ZeroDivisionError"
  | .noSuchProcess => "NoSuchProcess"

def jOut : Out → Json
  | .ok v n => jObj [("kind", "ok"), ("nreads", jNat n), ("val", jVal v)]
  | .exc e n => jObj [("kind", "exc"), ("exc", Json.str (excName e)), ("nreads", jNat n)]
  | .starved => jObj [("kind", "starved")]

def jPOut : POut → Json
  | .val v => jObj [("kind", "ok"), ("val", jRat v)]
  | .exc e => jObj [("kind", "exc"), ("exc", Json.str (excName e))]
  | .starved => jObj [("kind", "starved")]

/-! spec-side comparison of two stored samples, through the record-based formulas of Spec/C07 -/

def timesOf (l : List Rat) : Spec.Times :=
  ⟨l.getD 0 0, l.getD 1 0, l.getD 2 0, l.getD 3 0, l.getD 4 0, l.getD 5 0, l.getD 6 0,
   l.getD 7 0, l.getD 8 0, l.getD 9 0⟩

inductive Mode | rounded | exact | total | lens

def specOne (nf : Nat) (m : Mode) (fn : Fn) (a b : Sample) : Val :=
  let o := timesOf a
  let n := timesOf b
  let tot := Spec.total nf o n
  match m, fn with
  | .total, _ =>
    -- elapsed total, and how far the two guest columns advanced (0 when not exposed)
    .tup [tot, if 9 ≤ nf then Spec.adv o.guest n.guest else 0,
          if 10 ≤ nf then Spec.adv o.guestNice n.guestNice else 0]
  | .rounded, .percent => .num (Spec.percent nf o n)
  | .exact, .percent => .num (Spec.percentExact nf o n)
  | .rounded, .timesPercent =>
    .tup (if tot = 0 then (Spec.advs nf o n).map fun _ => 0 else Spec.shares nf o n)
  | .exact, .timesPercent =>
    .tup (if tot = 0 then (Spec.advs nf o n).map fun _ => 0
          else (Spec.advs nf o n).map (Spec.shareExact nf o n))
  | .lens, _ => .nums [1, 1]

def specCmp (nf : Nat) (m : Mode) (fn : Fn) : Stored → Stored → PRes Val
  | .one a, .one b =>
    match m with
    | .lens => .ok (.nums [1, 1])
    | _ => .ok (specOne nf m fn a b)
  | .many as, .many bs =>
    match m with
    | .lens => .ok (.nums [(as.length : Rat), (bs.length : Rat)])   -- how many CPUs each sample has
    | _ =>
    let vs := List.zipWith (specOne nf m fn) as bs
    let asTups := Val.tups (vs.map fun v => match v with | .tup x => x | _ => [])
    match m, fn with
    | .total, _ => .ok asTups
    | .rounded, .percent =>
      -- the record-level specification of the per-CPU form (Spec.perCpuPercent)
      .ok (.nums (Spec.perCpuPercent nf (as.map timesOf) (bs.map timesOf)))
    | _, .percent => .ok (.nums (vs.map fun v => match v with | .num x => x | _ => 0))
    | _, .timesPercent => .ok asTups
  | _, _ => .error .typeError

def parseFn (s : String) : R Fn :=
  if s == "percent" then .ok .percent
  else if s == "times_percent" then .ok .timesPercent
  else .error s!"bad fn {s}"

def parseTicks (j : Json) : R Spec.Ticks := do
  let l ← asList asNat j
  match l with
  | [a, b, c, d, e, f, g, h, i, k] => pure ⟨a, b, c, d, e, f, g, h, i, k⟩
  | _ => .error "ticks must be 10 numbers"

def jPRes {α : Type} (f : α → Json) : PRes α → Json
  | .ok v => jObj [("kind", "ok"), ("val", f v)]
  | .error e => jObj [("kind", "exc"), ("exc", Json.str (excName e))]

def handle (d : DSt) (j : Json) : R (DSt × Json) := do
  let op ← strF j "op"
  if op == "reset" then
    return (DSt.init, ok (Json.str "reset"))
  if op == "fields" then
    -- scputimes._fields for a first line with `vlen` values, as column indices in kernel order
    let vlen ← natF j "vlen"
    let fs := fieldsFor cfg vlen
    let idx := fs.map fun f => (Spec.kernelOrder.findIdx? (· == f)).getD 99
    return (d, jObj [("model", jList jNat idx), ("spec", jList jNat (List.range (Spec.nfOf vlen)))])
  if op == "world" then
    -- render a kernel state, parse it back with the model, and say what the user is promised
    let vlen ← natF j "vlen"
    let tck ← natF j "tck"
    let ncols ← natF j "ncols"
    let total ← field j "total" >>= parseTicks
    let cpus ← listF parseTicks j "cpus"
    let other ← listF asBytes j "other"
    let w : Spec.ProcStat := ⟨total, cpus, other⟩
    let data := Spec.renderProcStat ncols w
    let e : Env := ⟨cfg, vlen, tck⟩
    let nf := e.fields.length
    let snf := Spec.nfOf vlen
    return (d, jObj [
      ("data", jBytes data),
      ("model", jObj [("sys", jPRes jRats (cpuTimes cfg nf tck data)),
                      ("per", jPRes (jList jRats) (perCpuTimes cfg nf tck data))]),
      ("spec", jObj [("sys", jPRes jRats (.ok (Spec.seconds tck snf total))),
                     ("per", jPRes (jList jRats) (.ok (cpus.map (Spec.seconds tck snf))))])])
  if op == "times" then
    -- arbitrary bytes (possibly malformed): the model AND the byte-level specification (Spec.lineOutcome / linesOutcome)
    let vlen ← natF j "vlen"
    let tck ← natF j "tck"
    let data ← bytesF j "data"
    let e : Env := ⟨cfg, vlen, tck⟩
    let nf := e.fields.length
    -- the specification for ANY bytes (Spec.lineOutcome / linesOutcome: which exception, exactly when) and
    -- whether every converted token is in one of the two CLAIMED classes (digit string or foreign)
    let snf := Spec.nfOf vlen
    let cpuLines := ((linesOf data).drop 1).filter (startsWith [99, 112, 117])
    let claimedLine (l : Bytes) : Bool :=
      (Spec.counterToks snf (splitWs l)).all fun t => Spec.isDigitTok t || Spec.isForeignTok t
    return (d, jObj [("model", jObj [("sys", jPRes jRats (cpuTimes cfg nf tck data)),
                                     ("per", jPRes (jList jRats) (perCpuTimes cfg nf tck data))]),
                     ("spec", jObj [("sys", jPRes jRats (Spec.lineOutcome tck snf (splitWs (firstLine data)))),
                                    ("per", jPRes (jList jRats) (Spec.linesOutcome tck snf cpuLines))]),
                     ("claimed", jObj [("sys", Json.bool (claimedLine (firstLine data))),
                                       ("per", Json.bool (cpuLines.all claimedLine))])])
  if op == "percpul" then
    -- two kernel states whose `cpuN` lines carry their own numbers (offline CPUs are not printed): rendered by
    -- the Lean renderer, read by a thread's first `cpu_percent(percpu=True)` / `cpu_times(percpu=True)`
    let vlen ← natF j "vlen"
    let tck ← natF j "tck"
    let ncols ← natF j "ncols"
    let parseW (jw : Json) : R Spec.ProcStatL := do
      let total ← field jw "total" >>= parseTicks
      let cpus ← listF (fun e => do
        match e.getArr? with
        | .ok #[n, t] => do pure ((← asNat n), (← parseTicks t))
        | _ => .error "cpus entry must be [number, ticks]") jw "cpus"
      let other ← listF asBytes jw "other"
      pure ⟨total, cpus, other⟩
    let w1 ← field j "w1" >>= parseW
    let w2 ← field j "w2" >>= parseW
    let d1 := Spec.renderProcStatL ncols w1
    let d2 := Spec.renderProcStatL ncols w2
    let e : Env := ⟨cfg, vlen, tck⟩
    let nf := e.fields.length
    let snf := Spec.nfOf vlen
    let c : Call := ⟨.percent, 1, none, true, [d1, d2]⟩
    let out := (cstep e CSt.init c).2
    let tm (w : Spec.ProcStatL) := w.cpus.map fun p => (p.1, Spec.Times.ofTicks tck p.2)
    let byPos := Spec.perCpuPercent snf ((tm w1).map Prod.snd) ((tm w2).map Prod.snd)
    let byNum := Spec.perCpuByNumber snf (tm w1) (tm w2)
    return (d, jObj [
      ("data1", jBytes d1), ("data2", jBytes d2),
      ("times", jObj [("model", jPRes (jList jRats) (perCpuTimes cfg nf tck d2)),
                      ("spec", jPRes (jList jRats) (.ok (w2.cpus.map fun p => Spec.seconds tck snf p.2)))]),
      ("model", jOut out),
      ("by_position", jRats byPos), ("by_number", jRats byNum),
      ("exact", jRats (List.zipWith (Spec.percentExact snf) ((tm w1).map Prod.snd) ((tm w2).map Prod.snd))),
      ("same_online", Json.bool (w1.cpus.map Prod.fst == w2.cpus.map Prod.fst))])
  if op == "tokens" then
    -- which of these tokens are in the kernel's `%llu` grammar (Spec.isKernelTok), and their values
    let toks ← listF asBytes j "toks"
    return (d, jObj [("grammar", jList (fun t => Json.bool (Spec.isKernelTok t)) toks),
                     ("digit", jList (fun t => Json.bool (Spec.isDigitTok t)) toks),
                     ("foreign", jList (fun t => Json.bool (Spec.isForeignTok t)) toks),
                     ("value", jList (fun t => match parseDec? t with
                                               | some n => jNat n
                                               | none => Json.null) toks)])
  if op == "import" then
    -- the module-level code run by thread `tid`: `reads` = /proc/stat at `cpu_times()` and at
    -- `cpu_times(percpu=True)`; `vlen` = number of values `set_scputimes_ntuple` saw
    let vlen ← natF j "vlen"
    let tck ← natF j "tck"
    let tid ← natF j "tid"
    let reads ← listF asBytes j "reads"
    match reads with
    | [r0, r1] =>
      let e : Env := ⟨cfg, vlen, tck⟩
      let s := cimportState e tid r0 r1
      let has (f : Fam) (t : Tid) (st : Fam → Tid → Option Stored) : Json := Json.bool (st f t).isSome
      let fams : List Fam := [⟨.percent, false⟩, ⟨.percent, true⟩, ⟨.timesPercent, false⟩, ⟨.timesPercent, true⟩]
      return ({ DSt.init with cst := s, imp := some (tid, r0, r1) },
        jObj [("model", jList (fun f => has f tid s.view) fams),
              ("spec", jList (fun f => has f tid (Spec.importSample (sample e) tid r0 r1)) fams)])
    | _ => .error "import needs exactly two reads"
  if op == "call" then
    let vlen ← natF j "vlen"
    let tck ← natF j "tck"
    let fn ← strF j "fn" >>= parseFn
    let tid ← natF j "tid"
    let thr ← (optF asNat j "thr")
    let interval ← optF asRat j "interval"
    let percpu ← boolF j "percpu"
    let reads ← listF asBytes j "reads"
    let e : Env := ⟨cfg, vlen, tck⟩
    let c : Call := ⟨fn, tid, interval, percpu, reads⟩
    let cT : Call := ⟨fn, thr.getD tid, interval, percpu, reads⟩
    -- the model over the CONTAINER the code files the samples in (`cfg.storeBound`: builtin dicts keep everything)
    let (s', out) := cstep e d.cst c
    let snf := Spec.nfOf vlen
    let hOwn := d.hist.of c         -- the caller's own earlier calls through this function/variant (C07_own_history_only)
    let hOwnT := d.histT.of cT
    let rd := memoRd e (memoTab e (c :: hOwn ++ (if thr.isSome then hOwnT else [])))
    let sp (m : Mode) : Out :=
      match d.imp with
      | none => Spec.expected rd (specCmp snf m) hOwn c
      | some (t0, r0, r1) => Spec.expectedSinceImport rd (specCmp snf m) t0 r0 r1 hOwn c
    -- the same call measured against the calling THREAD's own previous sample (differs from
    -- "spec" only when two threads of the history share an identifier)
    let spT : Out :=
      match d.imp with
      | none => Spec.expected rd (specCmp snf .rounded) hOwnT cT
      | some (t0, r0, r1) => Spec.expectedSinceImport rd (specCmp snf .rounded) t0 r0 r1 hOwnT cT
    -- how many threads have a sample filed in the caller's dictionary after the call (the population)
    let pop := (s'.dict (slot cfg c.fam)).length
    return ({ d with cst := s', hist := d.hist.add c, histT := d.histT.add cT },
      jObj [("model", jOut out), ("spec", jOut (sp .rounded)), ("exact", jOut (sp .exact)),
            ("total", jOut (sp .total)), ("lens", jOut (sp .lens)), ("thread", jOut spT), ("pop", jNat pop)])
  if op == "pcall" then
    let tck ← natF j "tck"
    let obj ← natF j "obj"
    let interval ← optF asRat j "interval"
    let ncpu ← optF asInt j "ncpu"
    let timer ← listF asRat j "timer"
    let times ← listF (fun e => do
      match e.getArr? with
      | .ok #[u, s] => do pure ((← asNat u), (← asNat s))
      | _ => .error "times entry must be [utime, stime]") j "times"
    let vanish ← optF asNat j "vanish"
    let p : PCall := ⟨obj, interval, ncpu, timer, times, vanish⟩
    let (s', out) := pstep cfg tck d.pst p
    return ({ d with pst := s', phist := d.phist ++ [p] },
      jObj [("model", jPOut out), ("spec", jPOut (Spec.pexpected tck d.phist p)),
            ("exact", jPOut (Spec.pexpectedExact tck d.phist p))])
  .error s!"unknown op {op}"

def main : IO Unit := Proto.run DSt.init (total handle)
