/- Driver/C09.lean — line-protocol driver for the C09 model and specification (see Base/Proto.lean).

   ops (one JSON object per line):
     {"op":"net","h1":hex,"h2":hex,"ifs":[{"name":hex,"cols":[16 nats]}],"pernic":b}
         → {"file":hex,"model":out,"spec":out}       file = Spec.renderNetDev
     {"op":"netraw","file":hex,"pernic":b}            → {"model":out}
     {"op":"disk","devs":[{"major":n,"minor":n,"name":hex,"part":b,
                           "rec":{"k":"full","s":[11],"ext":[…]}|{"k":"part","v":[4]}|{"k":"old24","s":[11],"last":n}}],
      "perdisk":b}                                    → {"file":hex,"sysblock":[hex],"model":out,"spec":out}
     {"op":"diskraw","file":hex,"sysblock":[hex],"perdisk":b} → {"model":out,"spec":ValueError|null}
     {"op":"storage","sysblock":[hex],"names":[hex]}  → {"model":[bool]}
     {"op":"usage","st":[bsize,frsize,blocks,bfree,bavail,files,ffree,favail,flag,namemax]}
         → {"model":usage,"spec":usage}
     {"op":"usage","st":[…],"errno":n}   (os.statvfs raises OSError(n)) → {"model":{"kind":"exc","exc":"OSError","errno":n},"spec":null}
     {"op":"sysfs","disks":[{"major":n,"minor":n,"name":hex,"s":[11],"ext":[…],"others":[[hex,hex]],"attrs":[tree],
                             "parts":[{"minor":n,"name":hex,"s":[11],"ext":[…],"others":[[hex,hex]],"attrs":[tree]}]}],
      "procfs":b,"perdisk":b}
         → {"tree":[tree],"file":hex|null,"model":out,"spec":out}   tree = Spec.renderSysfs, file = Spec.renderDiskstats
           (present iff "procfs"); spec = the kernel's names and counters whichever source is read
     {"op":"sysfsraw","tree":[tree]|null,"diskstats":hex|null,"perdisk":b} → {"model":out,"spec":out|null}
         tree = {"name":hex,"files":[[hex,hex]],"subs":[tree]}; spec only for the world with neither source
     {"op":"int","toks":[hex]} → {"model":[int | "ValueError" | "unmodelled"]}     int() of one token
     {"op":"hist","steps":[{"k":"net","pernic":b,"nowrap":b,"h1":hex,"h2":hex,"ifs":[…]} |
                           {"k":"disk","perdisk":b,"nowrap":b,"devs":[…]} | {"k":"clearnet"} | {"k":"cleardisk"}]}
         a history of calls in ONE process, starting with empty nowrap caches
         → {"files":[{"file":hex[,"sysblock":[hex]]} | null], "model":[out], "spec":[outH]}
           outH = out whose values may be null (= no claim: a counter was seen going backwards, C10's subject)
-/
import PsutilModel.Base.Proto
import PsutilModel.Model.C09Gen
import PsutilModel.Spec.C09
import PsutilModel.Spec.C09Hist
open Lean Psutil Psutil.Proto Psutil.C09

def excName : Exc → String
  | .valueError => "ValueError"
  | .assertionError => "AssertionError"
  | .indexError => "IndexError"
  | .nameError => "UnboundLocalError"
  | .typeError => "TypeError"
  | .notImplementedError => "NotImplementedError"
  | .unmodelled => "unmodelled"

def jNT (t : List (String × Nat)) : Json := jList (fun kv => Json.arr #[Json.str kv.1, jNat kv.2]) t

def jPerdev (d : List (Bytes × List (String × Nat))) : Json :=
  jList (fun kv => Json.arr #[jBytes kv.1, jNT kv.2]) d

def jOut : Out → Json
  | .none => jObj [("kind", "none")]
  | .emptyDict => jObj [("kind", "empty")]
  | .perdev d => jObj [("kind", "perdev"), ("devs", jPerdev d)]
  | .total t => jObj [("kind", "total"), ("fields", jNT t)]
  | .exc .unmodelled => jObj [("kind", "unmodelled")]
  | .exc e => jObj [("kind", "exc"), ("exc", Json.str (excName e))]

def jExpect : Spec.Expect → Json
  | .none => jObj [("kind", "none")]
  | .emptyDict => jObj [("kind", "empty")]
  | .perdev d => jObj [("kind", "perdev"), ("devs", jPerdev d)]
  | .total t => jObj [("kind", "total"), ("fields", jNT t)]

def jNTH (t : List (String × Option Nat)) : Json :=
  jList (fun kv => Json.arr #[Json.str kv.1, match kv.2 with | some v => jNat v | none => Json.null]) t

def jExpectH : Spec.ExpectH → Json
  | .none => jObj [("kind", "none")]
  | .emptyDict => jObj [("kind", "empty")]
  | .perdev d => jObj [("kind", "perdev"), ("devs", jList (fun kv => Json.arr #[jBytes kv.1, jNTH kv.2]) d)]
  | .total t => jObj [("kind", "total"), ("fields", jNTH t)]

def parseIface (j : Json) : R Spec.Iface := do
  let name ← bytesF j "name"
  let c ← listF asNat j "cols"
  match c with
  | [a0, a1, a2, a3, a4, a5, a6, a7, b0, b1, b2, b3, b4, b5, b6, b7] =>
    pure { name := name, rxBytes := a0, rxPackets := a1, rxErrs := a2, rxDrop := a3, rxFifo := a4,
           rxFrame := a5, rxCompressed := a6, rxMulticast := a7, txBytes := b0, txPackets := b1,
           txErrs := b2, txDrop := b3, txFifo := b4, txColls := b5, txCarrier := b6, txCompressed := b7 }
  | _ => .error "iface needs 16 cols"

def parseIo11 (c : List Nat) : R Spec.Io11 :=
  match c with
  | [a0, a1, a2, a3, a4, a5, a6, a7, a8, a9, a10] =>
    pure { reads := a0, readsMerged := a1, sectorsRead := a2, msReading := a3, writes := a4,
           writesMerged := a5, sectorsWritten := a6, msWriting := a7, inFlight := a8, msIo := a9,
           msWeighted := a10 }
  | _ => .error "Io11 needs 11 values"

def parseRec (j : Json) : R Spec.Rec := do
  let k ← strF j "k"
  if k == "full" then do
    let s ← listF asNat j "s" >>= parseIo11
    let ext ← listF asNat j "ext"
    pure (.full s ext)
  else if k == "part" then do
    let v ← listF asNat j "v"
    match v with
    | [a, b, c, d] => pure (.part a b c d)
    | _ => .error "part needs 4 values"
  else if k == "old24" then do
    let s ← listF asNat j "s" >>= parseIo11
    let last ← natF j "last"
    pure (.old24 s last)
  else .error s!"unknown rec kind {k}"

def parseDev (j : Json) : R Spec.Dev := do
  let major ← natF j "major"
  let minor ← natF j "minor"
  let name ← bytesF j "name"
  let part ← boolF j "part"
  let r ← field j "rec" >>= parseRec
  pure { major := major, minor := minor, name := name, partition := part, stat := r }

def parsePair (j : Json) : R (Bytes × Bytes) := do
  match (← asList asBytes j) with
  | [a, b] => pure (a, b)
  | _ => .error "file needs [name, content]"

partial def parseTree (j : Json) : R SysDir := do
  let name ← bytesF j "name"
  let files ← listF parsePair j "files"
  let subs ← listF parseTree j "subs"
  pure (.node name files subs)

partial def jTree : SysDir → Json
  | .node n fs subs =>
    jObj [("name", jBytes n), ("files", jList (fun f => Json.arr #[jBytes f.1, jBytes f.2]) fs),
          ("subs", jList jTree subs)]

def parseSysPart (j : Json) : R Spec.SysPart := do
  let minor ← natF j "minor"
  let name ← bytesF j "name"
  let s ← listF asNat j "s" >>= parseIo11
  let ext ← listF asNat j "ext"
  let others ← listF parsePair j "others"
  let attrs ← listF parseTree j "attrs"
  pure { minor := minor, name := name, s := s, ext := ext, others := others, attrs := attrs }

def parseSysDisk (j : Json) : R Spec.SysDisk := do
  let major ← natF j "major"
  let minor ← natF j "minor"
  let name ← bytesF j "name"
  let s ← listF asNat j "s" >>= parseIo11
  let ext ← listF asNat j "ext"
  let others ← listF parsePair j "others"
  let attrs ← listF parseTree j "attrs"
  let parts ← listF parseSysPart j "parts"
  pure { major := major, minor := minor, name := name, s := s, ext := ext, others := others, attrs := attrs,
         parts := parts }

/-- one step of a history: the kernel-side step (for the specification) -/
def parseStep (j : Json) : R Spec.Step := do
  let k ← strF j "k"
  if k == "net" then do
    let per ← boolF j "pernic"
    let nowrap ← boolF j "nowrap"
    let h1 ← bytesF j "h1"
    let h2 ← bytesF j "h2"
    let ifs ← listF parseIface j "ifs"
    pure (.net per nowrap h1 h2 ifs)
  else if k == "disk" then do
    let per ← boolF j "perdisk"
    let nowrap ← boolF j "nowrap"
    let devs ← listF parseDev j "devs"
    pure (.disk per nowrap devs)
  else if k == "clearnet" then pure .clearNet
  else if k == "cleardisk" then pure .clearDisk
  else .error s!"unknown step kind {k}"

/-- what the process is shown for a kernel-side step: the files the Lean renderers produce -/
def renderStep : Spec.Step → MStep
  | .net per nowrap h1 h2 ifs => .net per nowrap (Spec.renderNetDev h1 h2 ifs)
  | .disk per nowrap devs => .disk per nowrap (Spec.sysBlock devs) (Spec.renderDiskstats devs)
  | .clearNet => .clearNet
  | .clearDisk => .clearDisk

def jStepFiles : MStep → Json
  | .net _ _ file => jObj [("file", jBytes file)]
  | .disk _ _ sb file => jObj [("file", jBytes file), ("sysblock", jList jBytes sb)]
  | _ => Json.null

def jIntTok (t : Bytes) : Json :=
  if hasNonAscii t then Json.str "unmodelled"
  else match pyInt? t with
    | none => Json.str "ValueError"
    | some v => jInt v

def stNames : List String :=
  ["st.f_bsize", "st.f_frsize", "st.f_blocks", "st.f_bfree", "st.f_bavail", "st.f_files",
   "st.f_ffree", "st.f_favail", "st.f_flag", "st.f_namemax"]

/-- `percent` = the exact ratio·100 before rounding, `round1` = the value returned (rounded to `digits` decimals) -/
def jUsage (total used free : Int) (pct returned : Rat) (digits : Nat) : Json :=
  jObj [("total", jInt total), ("used", jInt used), ("free", jInt free), ("percent", jRat pct),
        ("round1", jRat returned), ("digits", jNat digits)]

def handle (_ : Unit) (j : Json) : R (Unit × Json) := do
  let op ← strF j "op"
  if op == "net" then
    let h1 ← bytesF j "h1"
    let h2 ← bytesF j "h2"
    let ifs ← listF parseIface j "ifs"
    let per ← boolF j "pernic"
    let file := Spec.renderNetDev h1 h2 ifs
    return ((), jObj [("file", jBytes file), ("model", jOut (netIoCounters per file)),
                      ("spec", jExpect (Spec.expectNet per ifs))])
  else if op == "netraw" then
    let file ← bytesF j "file"
    let per ← boolF j "pernic"
    return ((), jObj [("model", jOut (netIoCounters per file))])
  else if op == "disk" then
    let devs ← listF parseDev j "devs"
    let per ← boolF j "perdisk"
    let file := Spec.renderDiskstats devs
    let sb := Spec.sysBlock devs
    return ((), jObj [("file", jBytes file), ("sysblock", jList jBytes sb),
                      ("model", jOut (diskIoCounters sb per file)),
                      ("spec", jExpect (Spec.expectDisk per devs))])
  else if op == "diskraw" then
    let file ← bytesF j "file"
    let sb ← listF asBytes j "sysblock"
    let per ← boolF j "perdisk"
    -- the specification speaks about a raw file only when a line has an unknown field count
    let unknown := (textLines diskCfg.univNl file).any fun l => !Spec.layoutKnown (splitP isWsT l).length
    return ((), jObj [("model", jOut (diskIoCounters sb per file)),
                      ("spec", if unknown then jOut (.exc .valueError) else Json.null)])
  else if op == "usage" then
    let st ← listF asNat j "st"
    let errno ← optF asNat j "errno"
    match errno with
    | some e =>
      -- os.statvfs raises OSError(errno): the model's call propagates it; the specification is silent
      let m : Json := match diskUsageCall usageCfg (.error e) with
        | .raised n => jObj [("kind", "exc"), ("exc", "OSError"), ("errno", jNat n)]
        | .value _ => jObj [("kind", "exc"), ("exc", "swallowed")]
      return ((), jObj [("model", m), ("spec", Json.null)])
    | none =>
    match st with
    | [bsize, frsize, blocks, bfree, bavail, files, ffree, favail, flag, namemax] =>
      let env : List (String × Int) := stNames.zip (st.map Int.ofNat)
      let sp := Spec.usage { bsize := bsize, frsize := frsize, blocks := blocks, bfree := bfree,
                             bavail := bavail, files := files, ffree := ffree, favail := favail,
                             flag := flag, namemax := namemax }
      let m : Json := match diskUsage usageCfg env with
        | some u => jUsage u.total u.used u.free u.percentExact u.percent u.roundDigits
        | none => jObj [("kind", "exc"), ("exc", "UnboundLocalError")]
      return ((), jObj [("model", m), ("spec", jUsage sp.total sp.used sp.free sp.percent (round1 sp.percent) 1)])
    | _ => .error "st needs 10 values"
  else if op == "sysfs" then
    let disks ← listF parseSysDisk j "disks"
    let procfs ← boolF j "procfs"
    let per ← boolF j "perdisk"
    let tree := Spec.renderSysfs disks
    let devs := Spec.sysDevs disks
    let file := if procfs then some (Spec.renderDiskstats devs) else none
    let sp := if procfs then Spec.expectDisk per devs else Spec.expectSysfs per disks   -- the same promise
    return ((), jObj [("tree", jList jTree tree), ("file", jOpt jBytes file),
                      ("model", jOut (diskIoCountersW ⟨file, some tree⟩ per)), ("spec", jExpect sp)])
  else if op == "sysfsraw" then
    let tree ← optF (asList parseTree) j "tree"
    let file ← optF asBytes j "diskstats"
    let per ← boolF j "perdisk"
    let sp := match tree, file with
      | none, none => jOut (.exc .notImplementedError)
      | _, _ => Json.null
    return ((), jObj [("model", jOut (diskIoCountersW ⟨file, tree⟩ per)), ("spec", sp)])
  else if op == "int" then
    let toks ← listF asBytes j "toks"
    return ((), jObj [("model", jList jIntTok toks)])
  else if op == "hist" then
    let steps ← listF parseStep j "steps"
    let ms := steps.map renderStep
    return ((), jObj [("files", jList jStepFiles ms), ("model", jList jOut (mrun WState.init ms)),
                      ("spec", jList jExpectH (Spec.hrun Spec.HState.init steps))])
  else if op == "storage" then
    let sb ← listF asBytes j "sysblock"
    let names ← listF asBytes j "names"
    return ((), jObj [("model", jList (fun n => Json.bool (isStorageDevice diskCfg sb n)) names)])
  else .error s!"unknown op {op}"

def main : IO Unit := Proto.run () (total handle)
