/- Driver/C02.lean — line-protocol driver for the C02 check: the shared identity machine with the
   configuration extracted into Generated/C02.lean (core: Model/C01Driver.lean), run through the fault layer of
   Model/C02Fault.lean: one more kernel input line

     {"op":"fault","pid":p,"on":bool}      reads of /proc/p/stat start / stop failing with a transient OSError

   (further keys of that line — which errno, at open() or at read() — are the harness's business).  With no faulty PID
   every line is answered exactly as Model/C01Driver.lean answers it.  A call that the transient error leaves is
   answered {"kind":"exc","exc":"OSError"}; the SPEC of `is_running` then carries "may_raise": true — the answer may
   be withheld while reads of the object's PID fail, but an answer that is given must be the one under "bool". -/
import PsutilModel.Model.C01Driver
import PsutilModel.Model.C02Gen
open Lean Psutil Psutil.Proto Psutil.C01 Psutil.C01.Drv Psutil.C02

def jOutF : OutF → Json
  | .ok o => jOut o
  | .osError => jObj [("kind", "exc"), ("exc", "OSError")]

/-- what C02 promises about this call, from the ghost fields, the kernel table and the fault input only -/
def specF (fs : FSt) : Ev → Json
  | .c (.isRunning i) =>
    match fs.st.ps.objs[i]? with
    | some o =>
      if fs.faulty.contains o.pid then
        jObj [("bool", Json.bool (Spec.listedB fs.st.kern o)), ("may_raise", Json.bool true)]
      else jObj [("bool", Json.bool (Spec.listedB fs.st.kern o))]
    | none => jObj []
  | ev => specOf fs.st ev

def handleF (fs : FSt) (j : Json) : R (FSt × Json) := do
  let op ← strF j "op"
  if op == "reset" then
    return (FSt.init (← natF j "btime"), ok (Json.str "reset"))
  if op == "pairs" then
    return (fs, pairs fs.st)
  if op == "fault" then
    let r := fs.step Psutil.C02.cfg statFault (.fault (← natF j "pid") (← boolF j "on"))
    return (r.1, jObj [("model", jObj [("out", jOutF r.2), ("eff", jList jEff [])]), ("spec", jObj [])])
  let ev ← parseEv j
  let spec := specF fs ev
  let r := fs.step Psutil.C02.cfg statFault (.ev ev)
  let s' := r.1.st
  let newEff := (s'.log.take (s'.log.length - fs.st.log.length)).reverse
  return (r.1, jObj [("model", jObj [("out", jOutF r.2), ("eff", jList jEff newEff)]), ("spec", spec)])

def main : IO Unit := Proto.run (FSt.init 1) (total handleF)
