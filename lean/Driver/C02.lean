/- Driver/C02.lean — line-protocol driver for the C02 check: the shared identity machine with the
   configuration extracted into Generated/C02.lean (core: Model/C01Driver.lean). -/
import PsutilModel.Model.C01Driver
import PsutilModel.Model.C02Gen

def main : IO Unit := Psutil.C01.Drv.driverMain Psutil.C02.cfg
