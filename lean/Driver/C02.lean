/- Driver/C02.lean — line-protocol driver for the C02 check: the shared identity machine with the
   configuration extracted into Generated/C02.lean, run through the fault layer of Model/C02Fault.lean over the BYTES
   of /proc/<pid>/stat with the extracted reader (Model/C02Stat.lean: `stepFB = stepF ∘ view`; line parsing shared
   with C01: Model/C01StatDriver.lean).  Kernel input lines on top of Model/C01Driver.lean's:

     {"op":"fault","pid":p,"on":bool}      reads of /proc/p/stat start / stop failing with a transient OSError
     {"op":"spawn","pid":p, "comm":hex, "letter":n, "ppid":n, "pre":[17 ints], "post":[ints]}   (keys after pid optional)
     {"op":"stat","pid":p, …same keys…}     the line of the listed process changes (prctl(PR_SET_NAME), exec, counters, …)

   (further keys of the fault line — which errno, at open() or at read() — are the harness's business; omitted keys of a
   spawn / stat line = the line the harness has always written).  With no faulty PID and default lines every line is
   answered exactly as Model/C01Driver.lean answers it.  A call that the transient error leaves is answered
   {"kind":"exc","exc":"OSError"}; the SPEC of `is_running` then carries "may_raise": true — the answer may be withheld
   while reads of the object's PID fail, but an answer that is given must be the one under "bool".  The SPEC is computed
   on the kernel's own table (`FStB.toFSt`: bytes forgotten) and never looks at a command name; a line the extracted
   reader cannot parse is answered {"kind":"no_prediction"}. -/
import PsutilModel.Model.C01StatDriver
import PsutilModel.Model.C02Gen
open Lean Psutil Psutil.Proto Psutil.C01 Psutil.C01.Drv Psutil.C02

def jOutF : OutF → Json
  | .ok o => jOut o
  | .osError => jObj [("kind", "exc"), ("exc", "OSError")]

/-- what C02 promises about this call, from the ghost fields, the kernel table and the fault input only -/
def specF (fs : FSt) : Ev → Json
  | .c (.isRunning i) =>
    match fs.st.ps.objs[i]? with
    | some o =>
      -- "readable": /proc/pid/stat of the object's PID opens right now (Spec.StatOpens: PID free or holder readable) —
      -- in histories with unreadable phases the clause C02_not_running_after_gone_readable speaks exactly then
      if fs.faulty.contains o.pid then
        jObj [("bool", Json.bool (Spec.listedB fs.st.kern o)), ("may_raise", Json.bool true),
              ("readable", Json.bool (Spec.statOpensB fs.st.kern o.pid))]
      else jObj [("bool", Json.bool (Spec.listedB fs.st.kern o)), ("readable", Json.bool (Spec.statOpensB fs.st.kern o.pid))]
    | none => jObj []
  | .c (.eq i j) =>
    -- "known": at least one of the two was built while its stat file opened (it has a start time;
    -- C02_unknown_start_meaning): then a True == must mean the same process (C02_eq_any_readability)
    match fs.st.ps.objs[i]?, fs.st.ps.objs[j]? with
    | some a, some b =>
      jObj [("bool", Json.bool (Spec.sameB a b)), ("same_pid", Json.bool (a.pid == b.pid)),
            ("known", Json.bool (a.ident.isSome || b.ident.isSome))]
    | _, _ => jObj []
  | ev => specOf fs.st ev

def jOutFB : Option OutF → Json
  | some o => jOutF o
  | none => jObj [("kind", "no_prediction")]

def handleFB (fs : FStB) (j : Json) : R (FStB × Json) := do
  let op ← strF j "op"
  if op == "reset" then
    return (FStB.init (← natF j "btime"), ok (Json.str "reset"))
  if op == "pairs" then
    return (fs, pairs fs.sb.toSt)
  if op == "fault" then
    let r := fs.step scfg Psutil.C02.cfg statFault (.fault (← natF j "pid") (← boolF j "on"))
    return (r.1, jObj [("model", jObj [("out", jOutFB r.2), ("eff", jList jEff [])]), ("spec", jObj [])])
  let ev ← parseEvB j
  let spec := specF fs.toFSt ev.erase
  let r := fs.step scfg Psutil.C02.cfg statFault (.ev ev)
  let s' := r.1.sb
  let newEff := (s'.log.take (s'.log.length - fs.sb.log.length)).reverse
  let wf : List (String × Json) :=
    match ev with
    | .k (.spawn _ _ aux) | .k (.rewrite _ _ aux) => [("line_wf", Json.bool (decide aux.WF))]
    | _ => []
  return (r.1, jObj ([("model", jObj [("out", jOutFB r.2), ("eff", jList jEff newEff)]), ("spec", spec)] ++ wf))

def main : IO Unit := Proto.run (FStB.init 1) (total handleFB)
