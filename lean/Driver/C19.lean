/- Driver/C19.lean — line-protocol driver for the C19 model (see Base/Proto.lean).

   file state: `null` = absent, `false` = unreadable, hex string = content.
   text files (/proc/cpuinfo, /proc/stat): a file state, or `{"blocks":[…]}` / `{"rec":{…}}` —
   then the Lean kernel-side renderer of Spec/C19.lean produces the bytes (`op: render` returns
   them so that the harness writes exactly these bytes into the fake procfs).
   Every answer is `{"model": …, "spec": …}`; `spec: null` = the property is silent on this input. -/
import PsutilModel.Base.Proto
import PsutilModel.Model.C19Gen
import PsutilModel.Spec.C19Cores
import PsutilModel.Spec.C19Dir
import PsutilModel.Spec.C19Boot
open Lean Psutil Psutil.Proto Psutil.C19

def asFS (j : Json) : R FileState :=
  if j.isNull then .ok .absent
  else match j.getBool? with
    | .ok false => .ok .unreadable
    | .ok true => .error "file state `true`"
    | .error _ => (asBytes j).map .content

def fsF (j : Json) (k : String) : R FileState :=
  match j.getObjVal? k with
  | .ok v => asFS v
  | .error _ => .ok .absent

def boolD (j : Json) (k : String) : R Bool :=
  match j.getObjVal? k with
  | .ok v => asBool v
  | .error _ => .ok false

def asSensor (j : Json) : R Sensor := do
  pure { input := ← fsF j "input", label := ← fsF j "label", max := ← fsF j "max", crit := ← fsF j "crit"
         other := ← boolD j "other" }

def asFan (j : Json) : R Fan := do
  pure { input := ← fsF j "input", label := ← fsF j "label", other := ← boolD j "other" }

def listD (f : Json → R α) (j : Json) (k : String) : R (List α) :=
  match j.getObjVal? k with
  | .ok v => asList f v
  | .error _ => .ok []

/-- a directory listing: `[[name, state], …]`, existing files only (`false` = unreadable) -/
def asDir (j : Json) : R Dir :=
  asList (fun e => do
    match e.getArr? with
    | .ok #[n, f] =>
      let name ← asBytes n
      match ← asFS f with
      | .absent => .error "a listed file cannot be absent"
      | .unreadable => pure (name, none)
      | .content b => pure (name, some b)
    | _ => .error "directory entry must be [name, state]") j

/-- a chip: abstract (`temps` / `fans` lists), or at file-name level (`files`: the listing of the
    hwmon directory; the sensor / fan bases are derived from the names as the code derives them) -/
def asChip (j : Json) : R Chip := do
  match j.getObjVal? "files" with
  | .ok fs =>
    let d ← asDir fs
    pure (chipOfDir (← boolD j "nested") d (sensorBases bNameTemp d).eraseDups (sensorBases bFan d).eraseDups)
  | .error _ =>
    pure { nested := ← boolD j "nested", name := ← fsF j "name", temps := ← listD asSensor j "temps"
           fans := ← listD asFan j "fans" }

def asTrip (j : Json) : R Trip := do
  pure { typ := ← fsF j "typ", temp := ← fsF j "temp", hyst := ← boolD j "hyst" }

def asZone (j : Json) : R Zone := do
  pure { temp := ← fsF j "temp", typ := ← fsF j "typ", trips := ← listD asTrip j "trips" }

/-- a zone: abstract (`trips` in iteration order), or at file-name level: `files` = the listing of the
    zone directory, `order` = the iteration order of the Python set of derived trip-point names (must be
    one: no repetition, exactly the derived names). Model zone = `zoneOfDir`; specification zone =
    the kernel's description `Spec.kernelZone` (`none` = foreign `trip_point*` names: silent). -/
def asZoneIn (j : Json) : R (Zone × Option Zone) := do
  match j.getObjVal? "files" with
  | .ok fs =>
    let d ← asDir fs
    let order ← listD asBytes j "order"
    if !isSetOrder order (tripNames d) then
      .error "`order` is not an iteration order of the set of derived trip-point names"
    else pure (zoneOfDir d order, if Spec.KernelNamed d then some (Spec.kernelZone d) else none)
  | .error _ =>
    let z ← asZone j
    pure (z, some z)

/-- (tree the model runs on, tree the specification speaks about; `none` = silent) -/
def asTempTree (j : Json) : R (TempTree × Option TempTree) := do
  let n0 ← match j.getObjVal? "coretemp" with | .ok v => asNat v | .error _ => pure 0
  -- the coretemp platform files exist for the code only while it globs for them (fact `tempGlobs`)
  let n := if coretempConsulted then n0 else 0
  let chips ← listD asChip j "chips"
  let zs ← listD asZoneIn j "zones"
  let specZones : Option (List Zone) := zs.foldr (fun z acc => match z.2, acc with
    | some s, some l => some (s :: l) | _, _ => none) (some [])
  -- the specification says nothing about the coretemp platform glob: silent when it matches and hwmon lists
  -- no sensor (hypothesis `hct` of C19_temperatures_refine)
  let speaks := n == 0 || !(Spec.hwmonSensors chips).isEmpty
  pure ({ chips := chips, coretempFiles := n, zones := zs.map (·.1) },
        if speaks then specZones.map fun l => { chips := chips, coretempFiles := n, zones := l } else none)

def asSupply (j : Json) : R Supply := do
  pure { name := ← bytesF j "name", energyNow := ← fsF j "energy_now", chargeNow := ← fsF j "charge_now"
         powerNow := ← fsF j "power_now", currentNow := ← fsF j "current_now"
         energyFull := ← fsF j "energy_full", chargeFull := ← fsF j "charge_full"
         timeToEmpty := ← fsF j "time_to_empty_now", capacity := ← fsF j "capacity"
         status := ← fsF j "status", online := ← fsF j "online" }

def asPolicy (j : Json) : R Policy := do
  pure { n := ← natF j "n", scalingCur := ← fsF j "scaling_cur_freq", cpuinfoCur := ← fsF j "cpuinfo_cur_freq"
         scalingMax := ← fsF j "scaling_max_freq", scalingMin := ← fsF j "scaling_min_freq" }

def asBlock (j : Json) : R Spec.CpuBlock := do
  pure { processor := ← natF j "processor", mhzInt := ← natF j "mhz_int", mhzMilli := ← natF j "mhz_milli"
         physicalId := ← natF j "physical_id", cores := ← natF j "cores" }

def asStatRec (j : Json) : R Spec.StatRec := do
  pure { cpuTotal := ← listF asNat j "cpu_total", cpus := ← listF (asList asNat) j "cpus"
         intr := ← natF j "intr", intrRest := ← listF asNat j "intr_rest", ctxt := ← natF j "ctxt"
         btime := ← natF j "btime", processes := ← natF j "processes", softirq := ← natF j "softirq"
         softirqRest := ← listF asNat j "softirq_rest" }

/-- cpuinfo: structured blocks (rendered here) or a raw file state -/
def asCpuinfo (j : Json) : R (FileState × Option (List Spec.CpuBlock)) :=
  match j.getObjVal? "blocks" with
  | .ok v => do
    let bs ← asList asBlock v
    pure (.content (Spec.renderCpuinfo bs), some bs)
  | .error _ => (asFS j).map fun f => (f, none)

def asStat (j : Json) : R (FileState × Option Spec.StatRec) :=
  match j.getObjVal? "rec" with
  | .ok v => do
    let r ← asStatRec v
    pure (.content (Spec.renderStat r), some r)
  | .error _ => (asFS j).map fun f => (f, none)

/-- topology files: a list of file states, or `{"core_of":[…]}` = the kernel's files for that assignment
    of logical CPUs to cores, printed in cpulist format by Spec/C19Cores.lean -/
def asTopology (j : Json) (k : String) : R (List FileState × Option (List Nat)) :=
  match j.getObjVal? k with
  | .error _ => .ok ([], none)
  | .ok v =>
    match v.getObjVal? "core_of" with
    | .ok c => do
      let coreOf ← asList asNat c
      pure (Spec.kernelTopology Spec.cpuList coreOf, some coreOf)
    | .error _ => (asList asFS v).map fun l => (l, none)

def jFS : FileState → Json
  | .absent => Json.null
  | .unreadable => Json.bool false
  | .content b => jBytes b

def excName : Exc → String
  | .osError => "OSError"
  | .valueError => "ValueError"
  | .typeError => "TypeError"
  | .indexError => "IndexError"
  | .notImplemented => "NotImplementedError"
  | .runtimeError => "RuntimeError"

def jRes (f : α → Json) : Res α → Json
  | .ok a => jObj [("kind", "ok"), ("value", f a)]
  | .error e => jObj [("kind", "exc"), ("exc", Json.str (excName e))]

def jORat : Option Rat → Json := jOpt jRat

def jTempRaw (r : TempRaw) : Json :=
  jObj [("unit", jBytes r.unit), ("label", jBytes r.label), ("current", jRat r.current),
        ("high", jORat r.high), ("crit", jORat r.crit)]

def jTempOut (r : TempOut) : Json :=
  jObj [("unit", jBytes r.unit), ("label", jBytes r.label), ("current", jRat r.current),
        ("high", jORat r.high), ("crit", jORat r.crit)]

def jThresh : Spec.Thresh → Json
  | none => jObj [("any", Json.bool true)]
  | some v => jORat v

def jRow (r : Spec.Row) : Json :=
  jObj [("unit", jBytes r.unit), ("label", jBytes r.label), ("current", jRat r.current),
        ("high", jThresh r.high), ("crit", jThresh r.crit)]

def jFan (r : FanOut) : Json :=
  jObj [("unit", jBytes r.unit), ("label", jBytes r.label), ("current", jInt r.current)]

def jBat : Option BatOut → Json
  | none => Json.null
  | some b => jObj [("percent", jRat b.percent), ("secsleft", jInt b.secsleft),
                    ("plugged", jOpt Json.bool b.plugged)]

def jFreq (f : Freq) : Json := Json.arr #[jRat f.current, jRat f.min, jRat f.max]

def jFreqOut : FreqOut → Json
  | .list l => jObj [("list", jList jFreq l)]
  | .none => Json.null
  | .one f => jObj [("one", jFreq f)]

def jStat (a : StatAcc) : Json := Json.arr #[jOpt jInt a.ctxt, jOpt jInt a.intr, jOpt jInt a.soft]

def okv (j : Json) : Json := jObj [("kind", "ok"), ("value", j)]

def answer (m s : Json) : Json := jObj [("model", m), ("spec", s)]

def handle (_ : Unit) (j : Json) : R (Unit × Json) := do
  let op ← strF j "op"
  if op == "temps" then
    let (t, ts) ← asTempTree j
    let fh ← boolD j "fahrenheit"
    let m := jObj [("plat", jRes (jList jTempRaw) (sensorsTemperatures cfg t)),
                   ("front", jRes (jList jTempOut) (sensorsTemperaturesFront cfg fh t))]
    let s := match ts with
      | some t' => jObj [("plat", okv (jList jRow (Spec.temperatures t'))),
                         ("front", okv (jList jRow (Spec.temperaturesFront fh t')))]
      | none => jObj [("plat", Json.null), ("front", Json.null)]
    return ((), answer m s)
  if op == "fans" then
    let chips ← listD asChip j "chips"
    let s := match Spec.fans chips with | some l => okv (jList jFan l) | none => Json.null
    return ((), answer (jRes (jList jFan) (sensorsFans cfg chips)) s)
  if op == "battery" then
    let p : PowerTree := { dirExists := ← boolF j "dir", supplies := ← listD asSupply j "supplies" }
    let s := match Spec.battery p with | some b => okv (jBat b) | none => Json.null
    -- auxiliary for the harness' float tolerance only: the exact quotient behind `secsleft`, if any
    let aux : Json := match Spec.firstBattery p.supplies with
      | none => Json.null
      | some b =>
        match Spec.altInt b.energyNow b.chargeNow, Spec.altInt b.powerNow b.currentNow with
        | some (some n), some (some pw) => if pw = 0 then Json.null else jRat ((n : Rat) / (pw : Rat) * 3600)
        | _, _ => Json.null
    return ((), jObj [("model", jRes jBat (sensorsBattery cfg p)), ("spec", s), ("secs_exact", aux)])
  if op == "cpufreq" then
    let (ci, blocks) ← field j "cpuinfo" >>= asCpuinfo
    let onl ← listD (fun e => do
      match e.getArr? with
      | .ok #[i, f] => pure ((← asNat i), (← asFS f))
      | _ => .error "online entry must be [i, fs]") j "online"
    let t : FreqTree := { cpuinfo := ci, policies := ← listD asPolicy j "policies"
                          perCpu := ← listD asPolicy j "percpu_dirs", online := onl }
    let variant ← boolF j "variant"
    let percpu ← boolF j "percpu"
    let s := match blocks with
      | none => Json.null
      | some bs => match Spec.freqList variant bs t with
        | none => Json.null
        | some l => okv (jFreqOut (Spec.freqFront percpu l))
    return ((), answer (jRes jFreqOut (cpuFreq cfg variant percpu t)) s)
  if op == "cpucount" then
    let (ci, blocks) ← field j "cpuinfo" >>= asCpuinfo
    let (st, rec) ← field j "stat" >>= asStat
    let sc ← optF asInt j "sysconf"
    let (core, coreOf) ← asTopology j "core"
    let (sib, sibOf) ← asTopology j "sib"
    let t : CountTree := { sysconf := sc, cpuinfo := ci, stat := st, coreCpus := core, siblings := sib }
    let logical ← boolF j "logical"
    let s : Json :=
      if logical then
        match sc, blocks, rec with
        | some n, _, _ => okv (jOpt jInt (Spec.countOut n))
        | none, some bs, some r => okv (jOpt jInt (Spec.countLogical sc bs r))
        | none, some bs, none => if bs.length ≠ 0 then okv (jOpt jInt (Spec.countOut bs.length)) else Json.null
        | _, _, _ => Json.null
      else
        -- kernel-level statement when the consulted files are the kernel's rendering of an assignment
        -- of CPUs to cores: the number of distinct cores (C19_cpu_count_cores_kernel)
        let kernelLevel : Option (List Nat) :=
          if core.isEmpty then sibOf else coreOf
        match kernelLevel with
        | some (c :: cs) => okv (jOpt jInt (Spec.countOut (Spec.distinctCount (c :: cs))))
        | _ =>
          -- file-level statement: distinct sibling lists, else the cpuinfo packages (Spec.countCores);
          -- with a raw cpuinfo the fallback is not specified
          let bs := blocks.getD []
          if blocks.isNone ∧ (Spec.topologyFiles t).isEmpty then Json.null
          else match Spec.countCores t bs with
            | some v => okv (jOpt jInt v)
            | none => Json.null
    return ((), answer (jRes (jOpt jInt) (cpuCount logical t)) s)
  if op == "cpustats" then
    let (st, rec) ← field j "stat" >>= asStat
    let s := match rec with
      | some r => okv (Json.arr #[jInt r.ctxt, jInt r.intr, jInt r.softirq])
      | none => Json.null
    return ((), answer (jRes jStat (cpuStats st)) s)
  if op == "boottime" then
    let (st, rec) ← field j "stat" >>= asStat
    let s := match rec with
      | some r => okv (jRat (r.btime : Rat))
      | none => Json.null
    return ((), answer (jRes jRat (bootTime st)) s)
  if op == "boottime_seq" then
    -- a history of calls without resetting the module global in between (BOOT_TIME starts unset)
    let sts ← listD asStat j "stats"
    let rs := bootTimeRun bootReturnsFresh none (sts.map (·.1))
    let g := bootTimeGlobal none (sts.map (·.1))
    let m := jObj [("calls", jList (jRes jRat) rs), ("global", jOpt jRat g)]
    let s := jObj [("calls", jList (fun (x : FileState × Option Spec.StatRec) => match x.2 with
      | some r => okv (jRat (r.btime : Rat))
      | none => Json.null) sts)]
    return ((), answer m s)
  if op == "boothist" then
    -- a history of boot_time() / Process.create_time() / cpu_stats() calls in one interpreter (BOOT_TIME starts unset),
    -- each on the /proc/stat of its own moment; specification = Spec.expected of that moment alone (no state)
    let ticks ← natF j "ticks"
    if ticks == 0 then .error "ticks must be positive"
    let steps ← listD (fun e => do
      let (st, rec) ← field e "stat" >>= asStat
      let c ← strF e "call"
      let call ← if c == "boot_time" then pure HCall.bootTime
        else if c == "cpu_stats" then pure HCall.cpuStats
        else if c == "create_time" then do
          match st with
          | .content _ => pure (HCall.createTime (← natF e "start"))
          | _ => .error "a create_time step needs a readable stat file (wrap_exceptions is outside the model)"
        else .error s!"unknown call {c}"
      pure (({ stat := st, call := call } : HStep), rec)) j "steps"
    let hs := steps.map (·.1)
    let jH : HOut → Json := fun o => match o with | .time r => jRes jRat r | .stats r => jRes jStat r
    let m := jObj [("outs", jList jH (histRun bootRule ticks none hs)), ("global", jOpt jRat (histGlobal bootRule ticks none hs))]
    let sp := jObj [("outs", jList (fun (x : HStep × Option Spec.StatRec) => match x.2 with
      | some r => (match Spec.expected ⟨r, x.1.call⟩ with | some e => jH e | none => Json.null)
      | none => Json.null) steps)]
    return ((), answer m sp)
  if op == "render" then
    let what ← strF j "what"
    if what == "cpuinfo" then
      let (f, _) ← asCpuinfo j
      return ((), match f with | .content b => ok (jBytes b) | _ => bad "nothing to render")
    if what == "stat" then
      let (f, _) ← asStat j
      return ((), match f with | .content b => ok (jBytes b) | _ => bad "nothing to render")
    if what == "topology" then
      let (fs, _) ← asTopology j "files"
      return ((), ok (jList jFS fs))
    .error s!"render what={what}"
  .error s!"unknown op {op}"

def main : IO Unit := Proto.run () (total handle)
