/- Driver/C17.lean — line-protocol driver for the C17 models (see Base/Proto.lean).
   Every answer is `{"model": …, "spec": …}`; undecodable input → `{"bad": …}`. -/
import PsutilModel.Base.Proto
import PsutilModel.Model.C17Gen
import PsutilModel.Spec.C17
import PsutilModel.Spec.C17Ext
import PsutilModel.Spec.C17Py
import PsutilModel.Spec.C17R3
import PsutilModel.Spec.C17Thr
open Lean Psutil Psutil.Proto Psutil.C17

def jVal : Val → Json
  | .str b => jObj [("s", jBytes b)]
  | .int i => jObj [("i", jInt i)]
  | .none => Json.null

def jRows (rs : List (List Val)) : Json := jList (jList jVal) rs

def parseUtmp (j : Json) : R Spec.Utmp := do
  pure { typ := ← intF j "typ", pid := ← intF j "pid", line := ← bytesF j "line", id := ← bytesF j "id",
         user := ← bytesF j "user", host := ← bytesF j "host", exit := ← bytesF j "exit",
         session := ← bytesF j "session", sec := ← intF j "sec", usec := ← bytesF j "usec",
         addr := ← bytesF j "addr", unused := ← bytesF j "unused" }

def utmpWF (r : Spec.Utmp) : Bool :=
  decide (-32768 ≤ r.typ ∧ r.typ < 32768 ∧ -2147483648 ≤ r.pid ∧ r.pid < 2147483648
    ∧ -2147483648 ≤ r.sec ∧ r.sec < 2147483648)
  && r.line.length == 32 && r.id.length == 4 && r.user.length == 32 && r.host.length == 256
  && r.exit.length == 4 && r.session.length == 4 && r.usec.length == 4 && r.addr.length == 16
  && r.unused.length == 20

def parseMnt (j : Json) : R Mnt := do
  match j.getArr? with
  | .ok #[a, b, c, d] => pure ⟨← asBytes a, ← asBytes b, ← asBytes c, ← asBytes d⟩
  | _ => .error "mount entry must be [dev, dir, type, opts]"

def jMnt (m : Mnt) : Json := Json.arr #[jBytes m.dev, jBytes m.dir, jBytes m.typ, jBytes m.opts]

def parseFsEntry (j : Json) : R Spec.FsEntry := do
  match j.getArr? with
  | .ok #[a, b] => pure ⟨← asBool a, ← asBytes b⟩
  | _ => .error "fs entry must be [nodev, name]"

def parseArg (j : Json) : R Arg := if j.isNull then pure .other else (asInt j).map .int
def parseItem (j : Json) : R Item := if j.isNull then pure .other else (asInt j).map .int

def jPyOut : PyOut → Json
  | .none => jObj [("kind", "none")]
  | .typeError => jObj [("kind", "exc"), ("exc", "TypeError")]
  | .overflowError => jObj [("kind", "exc"), ("exc", "OverflowError")]
  | .valueError => jObj [("kind", "exc"), ("exc", "ValueError")]
  | .osError => jObj [("kind", "exc"), ("exc", "OSError")]
  | .ub => jObj [("kind", "ub")]
  | .syscall p => jObj [("kind", "syscall"), ("packed", jInt p)]

def jAffOut : AffOut → Json
  | .ok n => jObj [("kind", "ok"), ("ncpus", jInt n)]
  | .overflowError => jObj [("kind", "exc"), ("exc", "OverflowError")]
  | .ub n => jObj [("kind", "ub"), ("ncpus", jInt n)]
  | .fuelOut => jObj [("kind", "loop")]

def jAffSetOut : AffSetOut → Json
  | .typeError => jObj [("kind", "exc"), ("exc", "TypeError")]
  | .overflowError => jObj [("kind", "exc"), ("exc", "OverflowError")]
  | .valueError => jObj [("kind", "exc"), ("exc", "ValueError")]
  | .oob w => jObj [("kind", "oob"), ("word", jNat w)]
  | .mask cpus => jObj [("kind", "mask"), ("cpus", jList jNat cpus)]

def parseSock (j : Json) : R Sock := do
  pure { fam := ← natF j "fam", store := ← bytesF j "store", need := ← natF j "need", text := ← optF asBytes j "text" }

def parseIfEntry (j : Json) : R IfEntry := do
  pure { name := ← bytesF j "name", flags := ← natF j "flags", addr := ← optF parseSock j "addr",
         netmask := ← optF parseSock j "netmask", ifu := ← optF parseSock j "ifu" }

def jSlot : Slot → Json
  | .val v => jInt v
  | .ub => Json.str "ub"

def jPrio : PrioOut → Json
  | .value v => jObj [("kind", "value"), ("value", jInt v)]
  | .osError c => jObj [("kind", "exc"), ("exc", "OSError"), ("errno", jNat c)]

def jAsk : Ask → Json
  | .found p => jObj [("kind", "found"), ("path", jBytes p)]
  | .nothing => jObj [("kind", "none")]
  | .indexError => jObj [("kind", "exc"), ("exc", "IndexError")]

def parseUev (j : Json) : R (Nat × Nat × Bytes) := do
  match j.getArr? with
  | .ok #[a, b, t] => pure (← asNat a, ← asNat b, ← asBytes t)
  | _ => .error "uevent must be [major, minor, text]"

def parseClassDev (j : Json) : R (Bytes × Option Bytes) := do
  match j.getArr? with
  | .ok #[n, t] =>
    let nm ← asBytes n
    if t.isNull then pure (nm, none) else do
      let c ← asBytes t
      pure (nm, some c)
  | _ => .error "classdev must be [name, content|null]"

def parseBlockDev (j : Json) : R Spec.BlockDev := do
  match j.getArr? with
  | .ok #[a, b, c, n] => pure ⟨← asNat a, ← asNat b, ← asNat c, ← asBytes n⟩
  | _ => .error "dev must be [major, minor, blocks, name]"

def parseIo (f : Json → R α) (j : Json) : R (Except Nat α) := do
  match (j.getObjVal? "err").toOption with
  | some e => pure (.error (← asNat e))
  | none => pure (.ok (← field j "ok" >>= f))

def parseEth (j : Json) : R (Nat × Nat × Nat) := do
  match j.getArr? with
  | .ok #[d, hi, lo] => pure (← asNat d, ← asNat hi, ← asNat lo)
  | _ => .error "eth must be [duplex, hi, lo]"

def parseNic (j : Json) : R (Bytes × NicAns) := do
  pure (← bytesF j "name", { mtu := ← field j "mtu" >>= parseIo asNat, flags := ← field j "flags" >>= parseIo asNat,
                              eth := ← field j "eth" >>= parseIo parseEth })

def jStats (txt : NicRow → Bytes) : StatsOut → Json
  | .rows rs => jObj [("kind", "ok"), ("rows", jList (fun (p : Bytes × NicRow) =>
      Json.arr #[jBytes p.1, Json.bool p.2.isup, jNat p.2.duplex, jInt p.2.speed, jNat p.2.mtu, jBytes (txt p.2)]) rs)]
  | .osError c => jObj [("kind", "exc"), ("exc", "OSError"), ("errno", jNat c)]
  | .keyError d => jObj [("kind", "exc"), ("exc", "KeyError"), ("key", jNat d)]
  | .ub => jObj [("kind", "ub")]

def jAddrDict (d : List (Bytes × List AddrRow)) : Json :=
  jList (fun (p : Bytes × List AddrRow) =>
    Json.arr #[jBytes p.1, jList (fun (r : AddrRow) => Json.arr #[jInt r.fam, jVal r.addr, jVal r.mask, jVal r.bcast, jVal r.ptp]) p.2]) d

def maxIdx (ws : List (Nat × Nat)) : Nat := ws.foldl (fun m w => max m w.1) 0

def handle (_ : Unit) (j : Json) : R (Unit × Json) := do
  let op ← strF j "op"
  if op == "users" then
    let recs ← listF parseUtmp j "recs"
    let trail ← bytesF j "trail"
    let beyond ← bytesF j "beyond"
    if !(recs.all utmpWF) then .error "record not well-formed (widths / integer ranges)"
    if trail.length ≥ 384 then .error "trailing partial record must be shorter than 384 bytes"
    let file := Spec.renderAll recs ++ trail
    let emit := (j.getObjVal? "emit").toOption.isSome
    -- `ucfgS`: the decode flags are read off the source SHAPE (= `ucfg` when the shape is not understood)
    let m := jObj ([("rows", jRows (users ucfgS file beyond)),
                    ("reads", jList jNat (usersReads ucfgS file beyond))]
                   ++ (if emit then [("file", jBytes file)] else []))
    return ((), jObj [("model", m), ("spec", jObj [("rows", jRows (Spec.users recs))])])
  else if op == "partitions" then
    let all ← boolF j "all"
    let text ← bytesF j "fs"
    let fsents ← listF parseFsEntry j "fsents"
    let root ← optF asBytes j "root"
    let mnts ← listF parseMnt j "mnts"
    let model :=
      if all then jObj [("kind", "ok"), ("rows", jList jMnt (partitions pcfg true [] root mnts))]
      else match parseFilesystems pcfg text with
        | none => jObj [("kind", "exc"), ("exc", "IndexError")]
        | some ft => jObj [("kind", "ok"), ("rows", jList jMnt (partitions pcfg false ft root mnts)),
                           ("fstypes", jList jBytes ft)]
    let spec := jObj [("kind", "ok"), ("rows", jList jMnt (Spec.partitions all (Spec.diskFs fsents) root mnts))]
    return ((), jObj [("model", model), ("spec", spec)])
  else if op == "fsrender" then
    let fsents ← listF parseFsEntry j "fsents"
    return ((), jObj [("model", jList jBytes (fsents.map Spec.renderFsLine)), ("spec", Json.null)])
  else if op == "strncpy" then
    let src ← bytesF j "src"
    let n ← natF j "n"
    if n == 0 then .error "n must be positive (sizeof of an array)"
    let ws := strncpyWrites scfg src n
    let dst := applyWrites (List.replicate n 255) ws
    let m := jObj [("dst", jBytes dst), ("str", jBytes (Spec.cut dst)), ("max_index", jNat (maxIdx ws)),
                   ("in_bounds", Json.bool (ws.all fun w => w.1 < n))]
    return ((), jObj [("model", m), ("spec", jObj [("str", jBytes (Spec.boundedCopy src n)), ("in_bounds", Json.bool true)])])
  else if op == "mac" then
    let data ← bytesF j "data"
    let ws := macWrites mcfg data
    let m := jObj [("text", jOpt jBytes (macFormat mcfg data)), ("max_index", jNat (maxIdx ws)),
                   ("in_bounds", Json.bool (data.isEmpty || ws.all fun w => w.1 < mcfg.bufSize))]
    let s := jObj [("text", if data.isEmpty then Json.null else jBytes (Spec.macText data)), ("in_bounds", Json.bool true)]
    return ((), jObj [("model", m), ("spec", s)])
  else if op == "affget" then
    let need ← optF asNat j "need"
    return ((), jObj [("model", jAffOut (affGet acfg need)), ("spec", Json.null)])
  else if op == "affset" then
    let items ← listF parseItem j "items"
    return ((), jObj [("model", jAffSetOut (affSet ccfg items)), ("spec", Json.null)])
  else if op == "pid" then
    let a ← field j "arg" >>= parseArg
    let s := match a with
      | .other => Json.null
      | .int v => Json.bool (decide (0 ≤ v ∧ v ≤ 2147483647))
    return ((), jObj [("model", jPyOut (checkPidRange rcfg a)), ("spec", jObj [("accepted", s)])])
  else if op == "ioprio_ext" then
    let p ← field j "pid" >>= parseArg
    let c ← field j "cls" >>= parseArg
    let d ← field j "data" >>= parseArg
    let mo := ioprioSetExt icfg p c d
    -- spec: a value handed to the kernel is built from the ints the caller passed, within the documented ranges
    let ok : Bool := match mo, c, d with
      | .syscall w, .int cv, .int dv => decide (0 ≤ cv ∧ cv ≤ 7 ∧ 0 ≤ dv ∧ dv ≤ 8191 ∧ w = orNat (cv * 8192) dv)
      | .syscall _, _, _ => false
      | _, _, _ => true
    return ((), jObj [("model", jPyOut mo), ("spec", jObj [("applied_is_passed", Json.bool ok)])])
  else if op == "ionice_py" then
    let c ← intF j "cls"
    let v ← optF asInt j "value"
    return ((), jObj [("model", jPyOut (ioniceSetPy icfg c v)), ("spec", Json.null)])
  else if op == "ethspeed" then
    let hi ← natF j "hi"
    let lo ← natF j "lo"
    if hi ≥ 65536 || lo ≥ 65536 then .error "halves are 16-bit"
    let m := match ethSpeed ecfg hi lo with
      | .ub => jObj [("kind", "ub")]
      | .speed v => jObj [("kind", "speed"), ("mbps", jInt v)]
    return ((), jObj [("model", m), ("spec", jObj [("kind", "speed"), ("mbps", jInt (Spec.nicSpeed hi lo))])])
  else if op == "iff" then
    let f ← natF j "flags"
    let names := iffNames iffLinux Gen.C17.iffMask f
    let undoc := names.filter (fun n => !(Gen.C17.iffDocNames.contains n))
    return ((), jObj [("model", jObj [("names", jList Json.str names), ("undocumented", jList Json.str undoc)]),
                      ("spec", jObj [("names", jList Json.str (Spec.flagNames (f % 65536))), ("undocumented", jList Json.str [])])])
  else if op == "ifaddrs" then
    let es ← listF parseIfEntry j "entries"
    let reads := es.flatMap (ifReads ncfg)
    let m := jObj [("rows", jRows (ifRows ncfg mcfg es)),
                   ("reads_ok", Json.bool (reads.all fun r => r.1 ≤ r.2))]
    return ((), jObj [("model", m), ("spec", jObj [("rows", jRows (Spec.ifRows (fun d => if d.isEmpty then none else some (Spec.macText d)) es))])])
  else if op == "ifr" then
    let name ← bytesF j "name"
    let flags ← natF j "flags"
    let m := jObj [("ifr_name", jBytes (ifrName scfg qcfg name)), ("in_bounds", Json.bool (ifrInBounds scfg qcfg name)),
                   ("running", Json.bool (isRunning qcfg flags)),
                   ("names", jList Json.str (iffNames iffLinux Gen.C17.iffMask flags))]
    let s := jObj [("ifr_name", jBytes (Spec.boundedCopy name 16)), ("in_bounds", Json.bool true),
                   ("running", Json.bool (flags / 64 % 2 == 1)),
                   ("names", jList Json.str (Spec.flagNames (flags % 65536)))]
    return ((), jObj [("model", m), ("spec", s)])
  else if op == "mnt" then
    let ls ← listF asBytes j "lines"
    let lastTerm ← boolF j "last_term"
    let rows := diskPartitionsC dcfg ls lastTerm
    -- spec: a line that is the kernel's rendering of an entry and fits libc's buffer decodes to that entry
    return ((), jObj [("model", jList (jList jBytes) rows), ("spec", Json.null)])
  else if op == "mntrt" then
    let m ← field j "mnt" >>= parseMnt
    let line := Spec.renderMnt m
    let got := (diskPartitionsC dcfg [line] true)
    return ((), jObj [("model", jObj [("line", jBytes line), ("rows", jList (jList jBytes) got)]),
                      ("spec", jObj [("line", jBytes line), ("rows", jList (jList jBytes) [[m.dev, m.dir, m.typ, m.opts]])])])
  else if op == "sysinfo" then
    let vals ← listF asNat j "vals"
    let info : String → Nat := fun f => ((Spec.sysinfoOrder.zip vals).lookup f).getD 0
    return ((), jObj [("model", jList jSlot (sysinfoTuple ycfg info)), ("spec", jList jSlot (Spec.sysinfoTuple info))])
  else if op == "getprio" then
    let e ← natF j "errno_in"
    let k : Except Nat Int ← (do
      match (j.getObjVal? "nice").toOption with
      | some v => pure (.ok (← asInt v))
      | none => pure (.error (← natF j "kerr")))
    return ((), jObj [("model", jPrio (getPriority gcfg e k)), ("spec", jPrio (Spec.getPriority k))])
  else if op == "rootfs" then
    let M ← natF j "major"
    let m ← natF j "minor"
    let parts ← optF asBytes j "partitions"
    let uevs ← listF parseUev j "uevents"
    let cds ← listF parseClassDev j "classdevs"
    let ex ← listF asBytes j "exists"
    let devs ← optF (fun x => do match x.getArr? with | .ok a => a.toList.mapM parseBlockDev | _ => .error "devs") j "devs"
    let sys : RootSys := { major := M, minor := m, partitions := parts,
                           uevent := fun a b => (uevs.find? (fun u => u.1 == a && u.2.1 == b)).map (·.2.2),
                           classDevs := cds, pathExists := fun p => ex.contains p }
    let strategies := ["ask_proc_partitions", "ask_sys_dev_block", "ask_sys_class_block"].map (runStrategy fcfg sys)
    let spec := match devs with
      | none => Json.null
      | some ds => match Spec.rootOf ds M m with
        | some d => if ex.contains (Spec.devPath d) then jAsk (.found (Spec.devPath d)) else jAsk .nothing
        | none => jAsk .nothing
    let specStrat := match devs with
      | none => Json.null
      | some ds => match Spec.rootOf ds M m with
        | some d => jAsk (.found (Spec.devPath d))
        | none => jAsk .nothing
    return ((), jObj [("model", jObj [("find", jAsk (rootFind fcfg sys)), ("strategies", jList jAsk strategies)]),
                      ("spec", jObj [("find", spec), ("strategy", specStrat)])])
  else if op == "netifstats" then
    let nics ← listF parseNic j "nics"
    if !(nics.all fun p => match p.2.eth with | .ok (_, hi, lo) => hi < 65536 && lo < 65536 | .error _ => true) then .error "halves are 16-bit"
    return ((), jObj [("model", jStats (·.flagsText tcfg) (netIfStats tcfg ecfg iffLinux Gen.C17.iffMask nics)),
                      ("spec", jStats (fun r => joinWith [44] (r.flags.map ofString)) (Spec.netIfStats nics []))])
  else if op == "netifaddrs" then
    let es ← listF parseIfEntry j "entries"
    let raw := (ifRows ncfg mcfg es).filterMap rowOfVals
    let sraw := (Spec.ifRows (fun d => if d.isEmpty then none else some (Spec.macText d)) es).filterMap rowOfVals
    return ((), jObj [("model", jAddrDict (netIfAddrs wcfg raw)), ("spec", jAddrDict (Spec.netIfAddrs sraw))])
  else if op == "ifaddrs_fail" then
    let e ← natF j "err"
    let st ← boolF j "stores_null"
    let jn : NifOut → Json := fun o => match o with
      | .rows r => jObj [("kind", "rows"), ("rows", jRows r)]
      | .osError c => jObj [("kind", "exc"), ("exc", "OSError"), ("errno", jInt c)]
      | .ub => jObj [("kind", "ub")]
    return ((), jObj [("model", jn (netIfAddrsC nfail ncfg mcfg (.fail e st))), ("spec", jn (Spec.nifOutcome (.fail e st)))])
  else if op == "parts_e2e" then
    let all ← boolF j "all"
    let text ← bytesF j "fs"
    let ls ← listF asBytes j "lines"
    let lastTerm ← boolF j "last_term"
    let root ← optF asBytes j "root"
    let m := match diskPartitionsPy pcfg dcfg all text ls lastTerm root with
      | .rows r => jObj [("kind", "ok"), ("rows", jList jMnt r)]
      | .indexError => jObj [("kind", "exc"), ("exc", "IndexError")]
      | .valueError => jObj [("kind", "exc"), ("exc", "ValueError")]
    return ((), jObj [("model", m), ("spec", Json.null)])
  else if op == "errmsg" then
    let fn ← strF j "fn"
    let args ← listF asStr j "args"
    match Gen.C17.errMsgHelpers.find? (fun h => h.1 == fn) with
    | none => .error s!"no such helper {fn}"
    | some h =>
      match parseFmt h.2.2.1.toList with
      | none => return ((), jObj [("model", jObj [("kind", "unknown-format")]), ("spec", Json.null)])
      | some ps =>
        let out := renderPieces ps (args.map String.toList)
        return ((), jObj [("model", jObj [("text", Json.str (String.ofList out)), ("fits", Json.bool (out.length + 1 ≤ h.2.1)),
                                            ("size", jInt h.2.1), ("directives", jInt (countStr ps))]),
                          ("spec", Json.null)])
  else if op == "mt" then
    -- §24: `files[t]` = mount entries call t reads, `sched` = which thread moves next; then round-robin to completion
    let fn ← strF j "fn"
    let fs ← listF (asList parseMnt) j "files"
    let sched ← listF asNat j "sched"
    let files : Nat → List Mnt := fun t => fs.getD t []
    let c := gilCfgOf fn
    let n := fs.length
    let fuel := 4 * (fs.foldl (fun a f => a + f.length) 0) + 8 * n + 8
    let full := sched ++ Thr.rounds n fuel
    let st := Thr.run c full (Thr.initSt files)
    let ts := List.range n
    return ((), jObj [("model", jObj [("rows", jList (fun t => jList jMnt (st.thr t).out) ts),
                                      ("finished", jList (fun t => Json.bool ((st.thr t).pc == .done)) ts),
                                      ("relProduce", Json.bool c.relProduce), ("relBetween", Json.bool c.relBetween)]),
                      ("spec", jObj [("rows", jList (fun t => jList jMnt (Spec.Thr.callResult files t)) ts)])])
  else .error s!"unknown op {op}"

def main : IO Unit := Proto.run () (total handle)
