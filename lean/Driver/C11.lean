/- Driver/C11.lean — line-protocol driver for the C11 model (see Base/Proto.lean).

   {"op":"world","socks":[…],
    "procs":[[pid, null | {"err":errno} | [[fd, {"s":inode} | {"o":hex} | {"e":errno} | null]…]]…],
    "v6":bool,"ntop6":bool?,"supv6":bool?,"le":bool?,"queries":[{"kind":str,"pid":null|n}…]}
       errno = "ENOENT"|"ESRCH"|"EINVAL"|"ENAMETOOLONG"|"EACCES"|"EPERM"| number;
       ntop6 = inet_ntop(AF_INET6) raises ValueError, supv6 = supports_ipv6(),
       le = _pslinux.LITTLE_ENDIAN of the (emulated) host: the kernel renderer and the model both use it
            (default: the extracted value)
       → {"files":{name: hex|null}, "results":[{"model":…, "spec":…, "accepts":bool}…]}
     the world is rendered by the Lean kernel-side renderers (Spec), the model reads that.
   {"op":"raw","files":{name: hex|null},"procs":[[pid, null | [[fd, hex|null]…]]…],"queries":[…]}
       → {"results":[{"model":…}…]}           (malformed stream: no specification)
-/
import PsutilModel.Base.Proto
import PsutilModel.Model.C11Gen
import PsutilModel.Spec.C11
open Lean Psutil Psutil.Proto Psutil.C11

def excName : Exc → String
  | .valueError => "ValueError"
  | .runtimeError => "RuntimeError"
  | .keyError => "KeyError"
  | .indexError => "IndexError"
  | .structError => "error"
  | .fileNotFound => "FileNotFoundError"
  | .ipv6Unsupported => "_Ipv6UnsupportedError"
  | .processLookup => "ProcessLookupError"
  | .permissionError => "PermissionError"
  | .osError _ => "OSError"
  | .accessDenied => "AccessDenied"
  | .noSuchProcess => "NoSuchProcess"

def jAddr : Addr → Json
  | .empty => Json.null
  | .ip b p => jObj [("ip", jBytes b), ("port", jNat p)]
  | .path p => jObj [("path", jBytes p)]

def jRow (r : Row) : Json :=
  jObj [("fd", jInt r.fd), ("family", jNat r.family), ("type", jNat r.type),
        ("laddr", jAddr r.laddr), ("raddr", jAddr r.raddr), ("status", Json.str r.status),
        ("pid", jOpt jNat r.pid)]

def ntupleName (pid : Option Nat) : String :=
  match pid with
  | some (_ + 1) => "pconn"
  | _ => "sconn"

def jModel (pid : Option Nat) : Except Exc (List Row) → Json
  | .error e => jObj [("kind", "exc"), ("exc", Json.str (excName e))]
  | .ok rows => jObj [("kind", "rows"), ("ntuple", Json.str (ntupleName pid)), ("rows", jList jRow rows)]

def jExpect (e : Spec.Expect) : Json :=
  jObj [("base", jRow e.base),
        ("owners", jList (fun o => Json.arr #[jOpt jNat o.1, jInt o.2]) e.owners),
        ("all", Json.bool e.all)]

def jPromise (q : Spec.Query) : Spec.Promise → Json
  | .valueError => jObj [("kind", "exc"), ("exc", "ValueError")]
  | .rows es => jObj [("kind", "expects"), ("ntuple", Json.str (if q.pid.isSome then "pconn" else "sconn")),
                      ("expects", jList jExpect es)]

def parseFam (s : String) : R Spec.Fam :=
  if s == "inet4" then .ok .inet4 else if s == "inet6" then .ok .inet6
  else if s == "unix" then .ok .unix else .error s!"bad fam {s}"

def parseSock (j : Json) : R Spec.Sock := do
  let fam ← strF j "fam" >>= parseFam
  return { fam := fam, typ := ← natF j "typ", lip := ← bytesF j "lip", lport := ← natF j "lport",
           rip := ← bytesF j "rip", rport := ← natF j "rport", state := ← natF j "state",
           path := ← optF asBytes j "path", inode := ← natF j "inode", txq := ← natF j "txq",
           rxq := ← natF j "rxq", uid := ← natF j "uid", refcnt := ← natF j "refcnt",
           flags := ← natF j "flags" }

def parsePair {α β : Type} (f : Json → R α) (g : Json → R β) (j : Json) : R (α × β) :=
  match j.getArr? with
  | .ok #[a, b] => do return (← f a, ← g b)
  | _ => .error s!"not a pair: {j.compress}"

def parseErrno (j : Json) : R Errno :=
  match j.getStr? with
  | .ok "ENOENT" => .ok .enoent
  | .ok "ESRCH" => .ok .esrch
  | .ok "EINVAL" => .ok .einval
  | .ok "ENAMETOOLONG" => .ok .enametoolong
  | .ok "EACCES" => .ok .eacces
  | .ok "EPERM" => .ok .eperm
  | .ok s => .error s!"unknown errno {s}"
  | .error _ => (asNat j).map .other

/-- `null` = not a link (a regular file in the fake tree: a real EINVAL) -/
def parseTarget (j : Json) : R Spec.TargetE :=
  if j.isNull then .ok (.fail .einval)
  else match j.getObjVal? "s" with
    | .ok v => (asNat v).map .sock
    | .error _ =>
      match j.getObjVal? "e" with
      | .ok v => (parseErrno v).map .fail
      | .error _ => (bytesF j "o").map .other

/-- `null` = no `fd` directory (a real ENOENT); `{"err": errno}` = listdir fails; else the entries -/
def parseListing {α : Type} (f : Json → R α) (j : Json) : R (Except Errno (List (Nat × α))) :=
  if j.isNull then .ok (.error .enoent)
  else match j.getObjVal? "err" with
    | .ok v => (parseErrno v).map .error
    | .error _ => (asList (parsePair asNat f) j).map .ok

def parseLinkRaw (j : Json) : R LinkRes :=
  if j.isNull then .ok (.err .einval)
  else match j.getObjVal? "e" with
    | .ok v => (parseErrno v).map .err
    | .error _ => (asBytes j).map .ok

def parseQuery (j : Json) : R Spec.Query := do
  return { kind := ← strF j "kind", pid := ← optF asNat j "pid" }

def netNames : List String := ["tcp", "tcp6", "udp", "udp6", "unix"]

/-- the model with the ONE inode dict threaded through all the tables of the query, lookups as extracted from the source
    (`Cfg.inetLookup`, `unixLookup`, `allInodesDefault`, `procInodesDefault`); equal to `netConnectionsE` for the code as
    it is (`C11_shared_map_frame`) -/
def run1 (c : Cfg) (fs : ProcFsE) (q : Spec.Query) : Except Exc (List Row) :=
  netConnectionsES c fs q.kind q.pid

def optBool (j : Json) (k : String) (dflt : Bool) : R Bool :=
  match j.getObjVal? k with
  | .ok v => asBool v
  | .error _ => .ok dflt

/-- no descriptor of the process fails at all (not even by vanishing) -/
def ownAllRead (w : Spec.WorldE) (p : Nat) : Bool :=
  match w.procs.lookup p with
  | some (.ok fds) => fds.all fun x => match x.2 with
      | .fail _ => false
      | _ => true
  | _ => false

/-- does the specification speak about this query in this world?
    * an unknown kind is a ValueError unconditionally ("before anything is read": `C11_unknown_kind_ValueError_E`);
    * otherwise only inside `World.WF` (`C11_wf_iff`: TCP states 1..11, UNIX types ≤ 9, names without `\n` …);
    * system-wide: every failure is of the "cannot be inspected" kind (`C11_scan_never_fails`; with `ntop6`:
      `C11_noipv6_scan`); per process: own descriptors fail at most by vanishing (`C11_scan_process`) — and not at
      all on an IPv6-less Python (that combination has no theorem: implementation vs model only);
    * `inet_ntop` failing while `supports_ipv6()` is true: the specification is silent. -/
def specified (w : Spec.WorldE) (ntop6 supv6 : Bool) (q : Spec.Query) : Bool :=
  !(Spec.kinds.contains q.kind) ||
  (w.view.wf && (!(ntop6 && supv6)) &&
   (match q.pid with
    | none => w.inspectable
    | some p => Spec.ownClean w p && (!ntop6 || ownAllRead w p)))

def handle (_ : Unit) (j : Json) : R (Unit × Json) := do
  let op ← strF j "op"
  let qs ← listF parseQuery j "queries"
  let ntop6 ← optBool j "ntop6" false
  let supv6 ← optBool j "supv6" true
  let le ← optBool j "le" cfg.littleEndian
  let c : Cfg := { cfg with littleEndian := le, ntop6Fails := ntop6, supportsV6 := supv6 }
  if op == "world" then
    let socks ← listF parseSock j "socks"
    let procs ← listF (parsePair asNat (parseListing parseTarget)) j "procs"
    let v6 ← boolF j "v6"
    let w : Spec.WorldE := { socks := socks, procs := procs, v6 := v6 }
    let fs := Spec.renderWorldE le w
    let files := jObj (netNames.map fun n => (n, jOpt jBytes (fs.net n)))
    -- what the promise is about: the inspectable part of the world; without IPv6 text support,
    -- minus the sockets whose row needs one
    let wv : Spec.World := if ntop6 then w.view.dropV6 else w.view
    let results := qs.map fun q =>
      let m := run1 c fs q
      if specified w ntop6 supv6 q then
        let p := Spec.promise wv q
        let acc : Bool := match m, p with
          | .ok rows, .rows es => Spec.accepts es rows
          | .error .valueError, .valueError => true
          | _, _ => false
        jObj [("model", jModel q.pid m), ("spec", jPromise q p), ("accepts", Json.bool acc)]
      else
        jObj [("model", jModel q.pid m), ("spec", jObj [("kind", "unspecified")]), ("accepts", Json.bool true)]
    return ((), jObj [("files", files), ("results", Json.arr results.toArray)])
  else if op == "raw" then
    let fj ← field j "files"
    let files ← netNames.mapM fun n => do
      let v ← optF asBytes fj n
      pure (n, v)
    let procs ← listF (parsePair asNat (parseListing parseLinkRaw)) j "procs"
    let fs : ProcFsE := { net := fun n => (files.lookup n).join, procs := procs }
    let results := qs.map fun q => jObj [("model", jModel q.pid (run1 c fs q))]
    return ((), jObj [("results", Json.arr results.toArray)])
  else .error s!"unknown op {op}"

def main : IO Unit := Proto.run () (total handle)
