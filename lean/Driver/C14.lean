/- Driver/C14.lean — line-protocol driver for the C14 model and specification (Base/Proto.lean).

   ops:
     {"op":"mode","flags":n}
     {"op":"table","fds":[…],"files":[hex],"others":[hex],"gone_before":b,"dies_at":null|k}
         → {"wf":b,"render":{…},"model":{"open_files":…,"num_fds":…},"spec":{…}}
     {"op":"raw","listdir":"ok"|"ENOENT"|"ESRCH","alive":b,"entries":[…],"files":[hex],"others":[hex]}
         → {"model":{"open_files":…,"num_fds":…}}
     {"op":"io_items","items":[…]}   → {"wf":b,"distinct":b,"render":hex,"model":…,"spec":…}
     {"op":"io_raw","file":hex|"ENOENT"|"ESRCH" (as {"err":…}),"alive":b} → {"model":…,"spec":…}
         (spec = Spec.expectedIoContent for a readable file: ANY content has a promised answer)
-/
import PsutilModel.Base.Proto
import PsutilModel.Model.C14Gen
import PsutilModel.Spec.C14
import PsutilModel.Spec.C14Io
open Lean Psutil Psutil.Proto Psutil.C14

def excName : Exc → String
  | .fileNotFound => "FileNotFoundError"
  | .processLookup => "ProcessLookupError"
  | .osError => "OSError"
  | .keyError => "KeyError"
  | .valueError => "ValueError"
  | .indexError => "IndexError"
  | .runtimeError => "RuntimeError"
  | .noSuchProcess => "NoSuchProcess"
  | .permissionError => "PermissionError"
  | .accessDenied => "AccessDenied"
  | .zombieProcess => "ZombieProcess"

def jOutcome (f : α → Json) : Outcome α → Json
  | .ok v => jObj [("kind", "ok"), ("value", f v)]
  | .exc e => jObj [("kind", "exc"), ("exc", Json.str (excName e))]

def jFile (p : POpenFile) : Json :=
  jObj [("path", jBytes p.path), ("fd", jNat p.fd), ("position", jNat p.position),
        ("mode", jBytes p.mode), ("flags", jNat p.flags)]

def parseGone (s : String) : R GoneErr :=
  if s == "ENOENT" then .ok .enoent else if s == "ESRCH" then .ok .esrch else .error s!"bad errno {s}"

def parseLinkErr (s : String) : R LinkErr :=
  if s == "ENOENT" then .ok .enoent else if s == "ESRCH" then .ok .esrch
  else if s == "EINVAL" then .ok .einval else if s == "ENAMETOOLONG" then .ok .enametoolong
  else if s == "EACCES" then .ok .eacces
  else .error s!"bad errno {s}"

/-- `{"other": errno number, "cls": hex of the OSError subclass name}` -/
def parseOther (j : Json) : R (Nat × Bytes) := do
  let en ← natF j "other"
  let cls ← bytesF j "cls"
  pure (en, cls)

def parseFileErr (s : String) : R FileErr :=
  if s == "EACCES" then .ok .denied else (parseGone s).map .gone

def fileErrName : FileErr → String
  | .gone .enoent => "ENOENT"
  | .gone .esrch => "ESRCH"
  | .denied => "EACCES"

def goneName : GoneErr → String
  | .enoent => "ENOENT"
  | .esrch => "ESRCH"

def linkErrName : LinkErr → String
  | .enoent => "ENOENT"
  | .esrch => "ESRCH"
  | .einval => "EINVAL"
  | .enametoolong => "ENAMETOOLONG"
  | .eacces => "EACCES"
  | .other en _ => s!"errno{en}"

/-- link result: `{"ok": hex}`, `{"err": "ENOENT"}` or `{"other": n, "cls": hex}` -/
def parseLink (j : Json) : R (Res LinkErr Bytes) :=
  match j.getObjVal? "other" with
  | .ok _ => do
    let (en, cls) ← parseOther j
    pure (.err (.other en cls))
  | .error _ =>
    match j.getObjVal? "ok" with
    | .ok v => (asBytes v).map .ok
    | .error _ => do
      let e ← strF j "err"
      let e ← parseLinkErr e
      pure (.err e)

def jLink : Res LinkErr Bytes → Json
  | .ok b => jObj [("ok", jBytes b)]
  | .err (.other en cls) => jObj [("other", jNat en), ("cls", jBytes cls)]
  | .err e => jObj [("err", Json.str (linkErrName e))]

/-- `{"ok": hex}` or `{"err": "ENOENT"}` -/
def parseRes (pe : String → R ε) (j : Json) : R (Res ε Bytes) :=
  match j.getObjVal? "ok" with
  | .ok v => (asBytes v).map .ok
  | .error _ => do
    let e ← strF j "err"
    let e ← pe e
    pure (.err e)

def jRes (ne : ε → String) : Res ε Bytes → Json
  | .ok b => jObj [("ok", jBytes b)]
  | .err e => jObj [("err", Json.str (ne e))]

/-- `{"p": hex path, "en": errno number, "cls": hex of the OSError subclass name}`: `os.stat(p)` fails with an
    errno that is neither ENOENT nor EACCES / EPERM (a PermissionError entry is rejected: that is `denied`) -/
def parseStatFail (j : Json) : R (Bytes × StatFail) := do
  let p ← bytesF j "p"
  let en ← natF j "en"
  let cls ← bytesF j "cls"
  if h : cls ≠ clsPermissionError then pure (p, ⟨en, cls, h⟩)
  else .error "stat_err: PermissionError is not a stat failure of this kind (use denied)"

def parseFS (j : Json) : R FS := do
  let files ← listF asBytes j "files"
  let others ← listF asBytes j "others"
  let denied ← match j.getObjVal? "denied" with
    | .ok _ => listF asBytes j "denied"
    | .error _ => pure []
  let statErr ← match j.getObjVal? "stat_err" with
    | .ok _ => listF parseStatFail j "stat_err"
    | .error _ => pure []
  pure { isFile := fun p => files.contains p, pathExists := fun p => files.contains p || others.contains p,
         denied := fun p => denied.contains p, statErr := fun p => statErr.lookup p }

/-- `Spec.StatCoherent` on the names the case speaks about: a name whose `os.stat` fails is neither a file nor existing -/
def fsCoherent (j : Json) : R Bool := do
  let fs ← parseFS j
  let statErr ← match j.getObjVal? "stat_err" with
    | .ok _ => listF parseStatFail j "stat_err"
    | .error _ => pure []
  pure (statErr.all fun pf => !fs.isFile pf.1 && !fs.pathExists pf.1 && !fs.denied pf.1)

def optBool (j : Json) (k : String) : R Bool :=
  match j.getObjVal? k with
  | .ok (.bool b) => pure b
  | .ok .null => pure false
  | .ok _ => .error s!"{k}: not a bool"
  | .error _ => pure false

def parseDeny (j : Json) : R (Option Spec.DenyAt) :=
  match j.getObjVal? "denied" with
  | .ok (.str s) =>
    if s == "readlink" then pure (some .readlink) else if s == "fdinfo" then pure (some .fdinfo)
    else .error s!"bad denied {s}"
  | .ok .null => pure none
  | .ok _ => .error "denied: not a string"
  | .error _ => pure none

def parseKind (j : Json) : R Spec.FdKind := do
  let t ← strF j "t"
  if t == "regular" then do
    let p ← bytesF j "path"
    let d ← boolF j "deleted"
    pure (.regular p d)
  else if t == "socket" then (natF j "ino").map .socket
  else if t == "pipe" then (natF j "ino").map .pipe
  else if t == "anon" then (bytesF j "name").map .anon
  else if t == "device" then (bytesF j "path").map .device
  else if t == "relative" then (bytesF j "target").map .relative
  else .error s!"bad kind {t}"

def parseStage (j : Json) : R Spec.Stage := do
  let s ← strF j "stage"
  let e ← strF j "errno" >>= parseGone
  if s == "readlink" then pure (.beforeReadlink e)
  else if s == "fdinfo" then pure (.beforeFdinfo e)
  else if s == "fdinfo_read" then do
    let second ← boolF j "second"
    pure (.duringFdinfo second e)
  else .error s!"bad stage {s}"

def parseFd (j : Json) : R Spec.Fd := do
  let n ← natF j "n"
  let kind ← field j "kind" >>= parseKind
  let pos ← natF j "pos"
  let flags ← natF j "flags"
  let tail ← bytesF j "tail"
  let closes ← optF parseStage j "closes"
  let deny ← parseDeny j
  pure ⟨n, kind, pos, flags, tail, closes, deny⟩

/-- `{"ok": hex}` | `{"err": errno}` | `{"ok": hex, "read_err": {"second": b, "errno": errno}}` -/
def parseInfo (j : Json) : R InfoRes :=
  match j.getObjVal? "ok" with
  | .ok v => do
    let content ← asBytes v
    match j.getObjVal? "read_err" with
    | .ok re => do
      let second ← boolF re "second"
      let e ← strF re "errno" >>= parseGone
      pure (.readErr content second e)
    | .error _ => pure (.ok content)
  | .error _ =>
    match j.getObjVal? "other" with
    | .ok _ => do
      let (en, cls) ← parseOther j
      pure (.openOther en cls)
    | .error _ => do
      let e ← strF j "err"
      if e == "EACCES" then pure .openDenied
      else do
        let e ← parseGone e
        pure (.openErr e)

def jInfo : InfoRes → Json
  | .ok b => jObj [("ok", jBytes b)]
  | .openErr e => jObj [("err", Json.str (goneName e))]
  | .openDenied => jObj [("err", Json.str "EACCES")]
  | .openOther en cls => jObj [("other", jNat en), ("cls", jBytes cls)]
  | .readErr b second e =>
    jObj [("ok", jBytes b), ("read_err", jObj [("second", Json.bool second), ("errno", Json.str (goneName e))])]

def parseEntry (j : Json) : R Entry := do
  let name ← bytesF j "name"
  let link ← field j "link" >>= parseLink
  let info ← field j "info" >>= parseInfo
  pure ⟨name, link, info⟩

def jEntry (e : Entry) : Json :=
  jObj [("name", jBytes e.name), ("link", jLink e.link), ("info", jInfo e.info)]

def jProc (p : Proc) : Json :=
  jObj [("alive", Json.bool p.alive), ("zombie", Json.bool p.zombie),
        ("listdir", match p.fdDir with
          | .ok es => jObj [("ok", jList jEntry es)]
          | .err e => jObj [("err", Json.str (fileErrName e))])]

def parseItem (j : Json) : R Spec.Item := do
  let t ← strF j "t"
  if t == "kv" then do
    let n ← bytesF j "name"
    let v ← natF j "val"
    pure (.kv n v)
  else if t == "blank" then (bytesF j "ws").map .blank
  else if t == "junk" then (bytesF j "s").map .junk
  else if t == "badval" then do
    let n ← bytesF j "name"
    let v ← bytesF j "val"
    pure (.badval n v)
  else .error s!"bad item {t}"

def jIo (names : List Bytes) (o : Outcome (List Int)) : Json :=
  jOutcome (fun vs => jList (fun nv => Json.arr #[jBytes nv.1, jInt nv.2]) (names.zip vs)) o

/-- the promised exception for an unopenable directory / file, or `null` when nothing is promised -/
def jErrSpec (alive zombie : Bool) (e : FileErr) : Json :=
  match Spec.expectedOnError alive zombie e with
  | some x => jObj [("kind", "exc"), ("exc", Json.str (excName x))]
  | none => Json.null

def wfAll (fs : FS) (fds : List Spec.Fd) : Bool := fds.all fun d => decide (Spec.WFFd fs d)

def handle (_ : Unit) (j : Json) : R (Unit × Json) := do
  let op ← strF j "op"
  if op == "mode" then do
    let flags ← natF j "flags"
    let m : Json := match fileFlagsToMode cfg flags with
      | some b => jObj [("kind", "ok"), ("value", jBytes b)]
      | none => jObj [("kind", "exc"), ("exc", "KeyError")]
    let s : Json := jObj [("kind", "ok"), ("value", jBytes (Spec.mode flags))]
    return ((), jObj [("model", m), ("spec", s)])
  else if op == "table" then do
    let fds ← listF parseFd j "fds"
    let fs ← parseFS j
    let coh ← fsCoherent j
    let gb ← boolF j "gone_before"
    let da ← optF asNat j "dies_at"
    let zombie ← optBool j "zombie"
    let dirDenied ← optBool j "dir_denied"
    let afterLink ← optBool j "dies_after_link"
    let w : Spec.World := ⟨fds, fs, gb, da, zombie, dirDenied, afterLink⟩
    let p := Spec.renderWorld w
    let model := jObj [("open_files", jOutcome (jList jFile) (openFiles cfg fs p)),
                       ("num_fds", jOutcome jNat (numFds cfg p))]
    let spec := jObj [("open_files", jOutcome (jList jFile) (Spec.expectedOpenFiles w)),
                      ("num_fds", jOutcome jNat (Spec.expectedNumFds w))]
    return ((), jObj [("wf", Json.bool (wfAll fs fds)), ("coherent", Json.bool coh), ("render", jProc p),
      ("model", model), ("spec", spec)])
  else if op == "raw" then do
    let fs ← parseFS j
    let alive ← boolF j "alive"
    let ld ← strF j "listdir"
    let entries ← listF parseEntry j "entries"
    let zombie ← optBool j "zombie"
    let dir : Res FileErr (List Entry) ← (if ld == "ok" then pure (.ok entries) else (parseFileErr ld).map .err)
    let p : Proc := ⟨dir, alive, zombie⟩
    let model := jObj [("open_files", jOutcome (jList jFile) (openFiles cfg fs p)),
                       ("num_fds", jOutcome jNat (numFds cfg p))]
    let spec : Json := match dir with
      | .err e => (match Spec.expectedOnError alive zombie e with
        | some _ => jObj [("open_files", jErrSpec alive zombie e), ("num_fds", jErrSpec alive zombie e)]
        | none => Json.null)
      | .ok _ => Json.null
    return ((), jObj [("model", model), ("spec", spec)])
  else if op == "io_items" then do
    let items ← listF parseItem j "items"
    let content := Spec.renderItems items
    let wf := items.all fun it => decide (Spec.WFItem it)
    let distinct := decide (Spec.DistinctKeys items)
    let hasBad := items.any Spec.Item.isBadval
    return ((), jObj [("wf", Json.bool wf), ("distinct", Json.bool distinct), ("has_badval", Json.bool hasBad),
      ("render", jBytes content),
      ("model", jIo cfg.pioFields (Pio.ioCounters cfg true (.ok content))),
      ("spec", jIo Spec.documentedFields (Spec.expectedIo items)),
      ("spec_content", jIo Spec.documentedFields (Spec.expectedIoContent content))])
  else if op == "io_raw" then do
    let alive ← boolF j "alive"
    let zombie ← optBool j "zombie"
    let file ← field j "file" >>= parseRes parseFileErr
    let spec : Json := match file with
      | .err e => jErrSpec alive zombie e
      | .ok content => jIo Spec.documentedFields (Spec.expectedIoContent content)
    return ((), jObj [("model", jIo cfg.pioFields (Pio.ioCounters cfg alive file zombie)), ("spec", spec)])
  else .error s!"unknown op {op}"

def main : IO Unit := Proto.run () (total handle)
