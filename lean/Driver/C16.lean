/- Driver/C16.lean — line-protocol driver for the C16 models (see Base/Proto.lean).

   Sequential lines (state persists until {"op":"reset"}):
     {"op":"enter"} {"op":"exit","exc":b} {"op":"call","m":name} {"op":"setver","src":s,"v":n}
     {"op":"setdenied","src":s,"b":b} {"op":"setstate","st":"alive|zombie|gone"} {"op":"setabsent","src":"smaps_rollup","b":b}
     {"op":"asdict","kind":"none|noncoll|names","attrs":[..],"all":[..],"env":[[name,out],..]}
   answer {"model":{"out":…,"reads":[7 counters],"probes":n}, "spec":{"out":…,"reads":[…]}}

   Concurrent line (stateless):
     {"op":"conc","obj":"front|proc","progs":[[item,…],…],"sched":[tid | ["ver",f,v] | ["deny",f,b], …]}
     items: ["call",f] | ["acquire"] | ["exit"]
   answer {"model":{"steps":[…],"rets":[…]}, "spec":{…}}

   Concurrent line, two cache levels (stateless; model Conc2 with the generated `ccfg2`):
     {"op":"conc2","progs":[[item,…],…],"sched":[…as above, f = source index…]}
     items: ["call", ff|null, g] (front-end memo function number or null, source number) | ["acquire"] | ["exit"]

   Record objects (stateless; model Rec with the generated `rcfg`):
     {"op":"rec","line":[n,…],"hist":[["enter"] | ["exit",b] | ["call",route] | ["line",[n,…]], …]}
   answer {"model":[out,…],"spec":[out,…]}, out = {"kind":"unit"} | {"kind":"ok","value":[[key,n],…]} | {"kind":"exc","exc":…}

   Calls of any shape (stateless; model Act, bodies completed by `bodyOf` from the generated `cacheOpSites`):
     {"op":"act","w":[a,b,c],"hist":[["enter"] | ["exit"] | ["change",[a,b,c]] | ["call",fn,[["get",src,viaFront] | ["tick"],…],[[a,b,c],…]], …]}
   answer {"model":{"outs":[[n,…],…],"reads":[[r,r,r],…]},"spec":{"outs":[[n,…],…]}}  (src: 0 stat, 1 status, 2 smaps)
-/
import PsutilModel.Base.Proto
import PsutilModel.Model.C16Gen
import PsutilModel.Spec.C16
import PsutilModel.Model.C16RecGen
import PsutilModel.Spec.C16Rec
import PsutilModel.Model.C16ActGen
import PsutilModel.Spec.C16Act
open Lean Psutil Psutil.Proto Psutil.C16

structure DSt where
  y : Sys
  ss : Spec.SSt
  w : World

def DSt.init : DSt := ⟨Sys.init, Spec.SSt.init, World.init⟩

def allSrc : List Src := [.stat, .status, .smaps, .statm, .cmdline, .io, .rollup]

def excName : Exc → String
  | .accessDenied => "AccessDenied"
  | .noSuchProcess => "NoSuchProcess"
  | .zombieProcess => "ZombieProcess"
  | .notImplemented => "NotImplementedError"

def jContent : Content → Json
  | .data v => jNat v
  | .empty => Json.null

def jVal (v : Val) : Json := jList jContent v

def jExc (n : String) : Json := jObj [("kind", "exc"), ("exc", Json.str n)]

def jRet : Except Exc Val → Json
  | .ok v => jObj [("kind", "ok"), ("value", jVal v)]
  | .error e => jExc (excName e)

def jDVal : DVal → Json
  | .val v => jObj [("v", jVal v)]
  | .opaque => Json.str "opaque"
  | .adValue => Json.str "ad"

def jDOut : DOut → Json
  | .typeError => jExc "TypeError"
  | .valueError => jExc "ValueError"
  | .raised e => jExc (excName e)
  | .dict kvs => jObj [("kind", "dict"), ("items", jList (fun kv => Json.arr #[Json.str kv.1, jDVal kv.2]) kvs)]

def jOut : Out → Json
  | .unit => jObj [("kind", "unit")]
  | .ret r => jRet r
  | .dict d => jDOut d
  | .attributeError => jExc "AttributeError"
  | .badIndex => jObj [("kind", "badIndex")]

def jReads (r : Src → Nat) : Json := jList (fun s => jNat (r s)) allSrc

def parseState (s : String) : R PState :=
  if s == "alive" then .ok .alive else if s == "zombie" then .ok .zombie
  else if s == "gone" then .ok .gone else .error s!"bad state {s}"

def srcF (j : Json) (k : String) : R Src := do
  let s ← strF j k
  match parseSrc s with
  | some x => pure x
  | none => .error s!"bad src {s}"

def parseEnvOut (s : String) : R EnvOut :=
  if s == "ok" then .ok .ok else if s == "ad" then .ok .ad else if s == "zombie" then .ok .zombie
  else if s == "nsp" then .ok .nsp else if s == "notimpl" then .ok .notimpl else .error s!"bad env outcome {s}"

def parseKind (s : String) : R AttrsKind :=
  if s == "none" then .ok .none else if s == "noncoll" then .ok .nonCollection
  else if s == "names" then .ok .names else .error s!"bad kind {s}"

def parseOp (j : Json) : R Op := do
  let op ← strF j "op"
  if op == "enter" then pure .enter
  else if op == "exit" then return .exit (← boolF j "exc")
  else if op == "call" then
    let m ← strF j "m"
    match cfg.meths.findIdx? (fun x => x.name == m) with
    | some i => pure (.call i)
    | none => .error s!"unknown method {m}"
  else if op == "setver" then return .setVer (← srcF j "src") (← natF j "v")
  else if op == "setdenied" then return .setDenied (← srcF j "src") (← boolF j "b")
  else if op == "setstate" then return .setState (← strF j "st" >>= parseState)
  else if op == "setabsent" then return .setAbsent (← srcF j "src") (← boolF j "b")
  else if op == "asdict" then
    let kind ← strF j "kind" >>= parseKind
    let attrs ← listF asStr j "attrs"
    let all ← listF asStr j "all"
    let env ← listF (fun e => do
      match e.getArr? with
      | .ok #[k, v] => do
        let k ← asStr k
        let v ← asStr v >>= parseEnvOut
        pure (k, v)
      | _ => .error "env entry must be [name, outcome]") j "env"
    pure (.asDict ⟨kind, attrs, all, env⟩)
  else .error s!"unknown op {op}"

/- ---------------------------------------------------------------- concurrent -/
open Conc in
def pcName : PC → String
  | .idle => "idle" | .test => "test" | .act (_ + 1) => "act" | .act 0 => "act0"
  | .deact (_ + 1) => "del" | .deact 0 => "del0" | .release => "release"
  | .w0 .. => "w0" | .w1 .. => "w1" | .w2 .. => "w2" | .w3 .. => "w3" | .w4 .. => "w4"
  | .ret .. => "ret" | .retErr .. => "retErr" | .err => "err"

inductive Item | call (f : Nat) | acquire | exit

def parseItem (j : Json) : R Item :=
  match j.getArr? with
  | .ok #[k] => do
    let k ← asStr k
    if k == "acquire" then pure .acquire else if k == "exit" then pure .exit else .error s!"bad item {k}"
  | .ok #[k, f] => do
    let k ← asStr k
    if k == "call" then return .call (← asNat f) else .error s!"bad item {k}"
  | _ => .error "bad item"

inductive SchedEl | tid (t : Nat) | ver (f v : Nat) | deny (f : Nat) (b : Bool)

def parseSched (j : Json) : R SchedEl :=
  match j.getNat? with
  | .ok t => pure (.tid t)
  | .error _ =>
    match j.getArr? with
    | .ok #[k, f, v] => do
      let k ← asStr k
      if k == "ver" then return .ver (← asNat f) (← asNat v)
      else if k == "deny" then return .deny (← asNat f) (← asBool v)
      else .error s!"bad sched element {k}"
    | _ => .error "bad sched element"

structure CRun where
  s : Conc.St
  progs : List (List Item)
  steps : List Json       -- reversed
  rets : List Json        -- reversed
  allInterval : Bool
  allLiteral : Bool
  spurious : Bool

def popProg (progs : List (List Item)) (t : Nat) : Option (Item × List (List Item)) :=
  match progs[t]? with
  | some (it :: rest) => some (it, progs.set t rest)
  | _ => none

open Conc in
def concStep (c : CCfg) (r : CRun) : SchedEl → CRun
  | .ver f v =>
    match Conc.step c r.s (.setVer f v) with
    | some s' => { r with s := s', steps := jObj [("k", "ver")] :: r.steps }
    | none => r
  | .deny f b =>
    match Conc.step c r.s (.setDenied f b) with
    | some s' => { r with s := s', steps := jObj [("k", "deny")] :: r.steps }
    | none => r
  | .tid t =>
    let pc := (r.s.thr t).pc
    let (choice, progs', what) : Option Choice × List (List Item) × String :=
      match pc with
      | .idle =>
        match popProg r.progs t with
        | some (.call f, p') => (some (.call f), p', "call")
        | some (.acquire, p') => (some .acquire, p', "acquire")
        | some (.exit, p') => (some .beginExit, p', "exit")
        | none => (none, r.progs, "done")
      | .err => (none, r.progs, "err")
      | _ => (some .step, r.progs, pcName pc)
    match choice with
    | none => { r with steps := jObj [("k", "thr"), ("tid", jNat t), ("pc", Json.str what), ("en", Json.bool false)] :: r.steps }
    | some ch =>
      match Conc.step c r.s (.thr t ch) with
      | none =>
        -- not enabled (acquire on a held lock): the program item is NOT consumed
        { r with steps := jObj [("k", "thr"), ("tid", jNat t), ("pc", Json.str what), ("en", Json.bool false)] :: r.steps }
      | some s' =>
        let stepJ := jObj [("k", "thr"), ("tid", jNat t), ("pc", Json.str what), ("en", Json.bool true)]
        let r1 := { r with s := s', progs := progs', steps := stepJ :: r.steps }
        match (s'.thr t).pc with
        | .ret f cs e how =>
          let iok := intervalOK s' f cs e how
          let lok := literalOK s' f cs e
          let howJ := match how with
            | .computed => Json.str "computed"
            | .hit d t0 => jObj [("hit", jNat d), ("t0", jNat t0), ("created", jNat (s'.created d))]
          -- the literal clause speaks about PLAIN callers: threads outside any block of their own
          let plain := decide ((s'.thr t).mode = .out)
          { r1 with rets := jObj [("tid", jNat t), ("f", jNat f), ("val", jNat e.val), ("tr", jNat e.tr),
                                   ("cs", jNat cs), ("now", jNat s'.now), ("how", howJ),
                                   ("interval", Json.bool iok), ("literal", Json.bool lok), ("plain", Json.bool plain)] :: r1.rets,
                    allInterval := r1.allInterval && iok, allLiteral := r1.allLiteral && (lok || !plain) }
        | .retErr f _ =>
          { r1 with rets := jObj [("tid", jNat t), ("f", jNat f), ("exc", "AccessDenied")] :: r1.rets }
        | .err =>
          { r1 with rets := jObj [("tid", jNat t), ("exc", "AttributeError"), ("spurious", Json.bool true)] :: r1.rets,
                    spurious := true }
        | _ => r1

def handleConc (j : Json) : R Json := do
  let obj ← strF j "obj"
  let c ← (if obj == "front" then pure ccfgFront else if obj == "proc" then pure ccfgProc
           else .error s!"bad obj {obj}")
  let progs ← listF (asList parseItem) j "progs"
  let sched ← listF parseSched j "sched"
  let r0 : CRun := ⟨Conc.St.init, progs, [], [], true, true, false⟩
  let r := sched.foldl (concStep c) r0
  pure (jObj [("model", jObj [("steps", Json.arr r.steps.reverse.toArray), ("rets", Json.arr r.rets.reverse.toArray),
                              ("lock", jOpt jNat r.s.lock), ("attr", Json.bool r.s.attr.isSome)]),
              ("spec", jObj [("interval", Json.bool r.allInterval), ("literal", Json.bool r.allLiteral),
                             ("spurious", Json.bool r.spurious)])])

/- ---------------------------------------------------------------- concurrent, two cache levels -/
open Conc2 in
def ph2Name : Conc2.Phase → String
  | .test => "test" | .act (.front :: _) => "actF" | .act (.proc :: _) => "actP" | .act [] => "act0"
  | .deact (.front :: _) => "delF" | .deact (.proc :: _) => "delP" | .deact [] => "del0"
  | .release => "release" | .out => "out" | .inBlock => "inBlock" | .inNoop => "inNoop" | .oerr => "oerr"

open Conc2 in
def pc2Name : Conc2.PC → String
  | .idle => "idle" | .f0 .. => "f0" | .f1 .. => "f1" | .p0 .. => "p0" | .p1 .. => "p1" | .p2 .. => "p2"
  | .p4 .. => "p4" | .f4 .. => "f4" | .ret .. => "ret" | .retErr .. => "retErr"

inductive Item2 | call (ff : Option Nat) (g : Nat) | acquire | exit

def parseItem2 (j : Json) : R Item2 :=
  match j.getArr? with
  | .ok #[k] => do
    let k ← asStr k
    if k == "acquire" then pure .acquire else if k == "exit" then pure .exit else .error s!"bad item {k}"
  | .ok #[k, ff, g] => do
    let k ← asStr k
    if k != "call" then .error s!"bad item {k}"
    let g ← asNat g
    if ff.isNull then return .call none g else return .call (some (← asNat ff)) g
  | _ => .error "bad item"

structure CRun2 where
  s : Conc2.St
  progs : List (List Item2)
  steps : List Json
  rets : List Json
  allInterval : Bool
  allLiteral : Bool
  spurious : Bool

def popProg2 (progs : List (List Item2)) (t : Nat) : Option (Item2 × List (List Item2)) :=
  match progs[t]? with
  | some (it :: rest) => some (it, progs.set t rest)
  | _ => none

open Conc2 in
def concStep2 (c : CCfg2) (r : CRun2) : SchedEl → CRun2
  | .ver f v =>
    match Conc2.step c r.s (.setVer f v) with
    | some s' => { r with s := s', steps := jObj [("k", "ver")] :: r.steps }
    | none => r
  | .deny f b =>
    match Conc2.step c r.s (.setDenied f b) with
    | some s' => { r with s := s', steps := jObj [("k", "deny")] :: r.steps }
    | none => r
  | .tid t =>
    let th := r.s.thr t
    let (choice, progs', what) : Option Choice × List (List Item2) × String :=
      if th.ph = .oerr then (none, r.progs, "err")
      else if th.pc = .idle && callable th.ph then
        match popProg2 r.progs t with
        | some (.call ff g, p') => (some (.call ff g), p', "call")
        | some (.acquire, p') => (some .acquire, p', "acquire")
        | some (.exit, p') => (some .beginExit, p', "exit")
        | none => (none, r.progs, "done")
      else (some .step, r.progs, if th.pc = .idle then ph2Name th.ph else pc2Name th.pc)
    let disabled := { r with steps := jObj [("k", "thr"), ("tid", jNat t), ("pc", Json.str what), ("en", Json.bool false)] :: r.steps }
    match choice with
    | none => disabled
    | some ch =>
      match Conc2.step c r.s (.thr t ch) with
      | none => disabled
      | some s' =>
        let stepJ := jObj [("k", "thr"), ("tid", jNat t), ("pc", Json.str what), ("en", Json.bool true)]
        let r1 := { r with s := s', progs := progs', steps := stepJ :: r.steps }
        if (s'.thr t).ph = .oerr then
          { r1 with rets := jObj [("tid", jNat t), ("exc", "AttributeError"), ("spurious", Json.bool true)] :: r1.rets,
                    spurious := true }
        else
        match (s'.thr t).pc with
        | .ret g cs e how =>
          let iok := Conc2.intervalOK s' g cs e how
          let lok := Conc2.literalOK s' g cs e
          let howJ := match how with
            | .computed => Json.str "computed"
            | .hitP d t0 => jObj [("hitP", jNat d), ("t0", jNat t0), ("ep", jNat (s'.ep d))]
            | .hitF d t0 => jObj [("hitF", jNat d), ("t0", jNat t0), ("ep", jNat (s'.ep d))]
          let plain := decide ((s'.thr t).ph = .out)
          { r1 with rets := jObj [("tid", jNat t), ("g", jNat g), ("val", jNat e.val), ("tr", jNat e.tr),
                                   ("cs", jNat cs), ("now", jNat s'.now), ("how", howJ),
                                   ("interval", Json.bool iok), ("literal", Json.bool lok), ("plain", Json.bool plain),
                                   ("depth", jNat (s'.thr t).stack.length)] :: r1.rets,
                    allInterval := r1.allInterval && iok, allLiteral := r1.allLiteral && (lok || !plain) }
        | .retErr g _ =>
          { r1 with rets := jObj [("tid", jNat t), ("g", jNat g), ("exc", "AccessDenied")] :: r1.rets }
        | _ => r1

def handleConc2 (j : Json) : R Json := do
  let progs ← listF (asList parseItem2) j "progs"
  let sched ← listF parseSched j "sched"
  let r0 : CRun2 := ⟨Conc2.St.init, progs, [], [], true, true, false⟩
  let r := sched.foldl (concStep2 ccfg2) r0
  pure (jObj [("model", jObj [("steps", Json.arr r.steps.reverse.toArray), ("rets", Json.arr r.rets.reverse.toArray),
                              ("lock", jOpt jNat r.s.lock), ("attrF", Json.bool r.s.attrF.isSome),
                              ("attrP", Json.bool r.s.attrP.isSome)]),
              ("spec", jObj [("interval", Json.bool r.allInterval), ("literal", Json.bool r.allLiteral),
                             ("spurious", Json.bool r.spurious)])])

/- ---------------------------------------------------------------- record objects -/
def parseRecOp (j : Json) : R Rec.Op :=
  match j.getArr? with
  | .ok #[k] => do
    let k ← asStr k
    if k == "enter" then pure .enter else .error s!"bad rec op {k}"
  | .ok #[k, a] => do
    let k ← asStr k
    if k == "exit" then return .exit (← asBool a)
    else if k == "line" then return .setLine (← asList asNat a)
    else if k == "call" then
      let m ← asStr a
      match Rec.rcfg.routes.findIdx? (fun x => x.name == m) with
      | some i => pure (.call i)
      | none => .error s!"unknown route {m}"
    else .error s!"bad rec op {k}"
  | _ => .error "bad rec op"

def jRecOut : Rec.Out → Json
  | .unit => jObj [("kind", "unit")]
  | .ret (.ok a) => jObj [("kind", "ok"), ("value", jList (fun kv => Json.arr #[Json.str kv.1, jNat kv.2]) a)]
  | .ret (.error .keyError) => jExc "KeyError"
  | .ret (.error .indexError) => jExc "IndexError"
  | .badIndex => jObj [("kind", "badIndex")]

def handleRec (j : Json) : R Json := do
  let line ← listF asNat j "line"
  let hist ← listF parseRecOp j "hist"
  pure (jObj [("model", jList jRecOut (Rec.outs Rec.rcfg ⟨Rec.St.init, line⟩ hist)),
              ("spec", jList jRecOut (Rec.RSpec.outsR Rec.rcfg ⟨Rec.RSpec.SSt.init, line⟩ hist))])

/- ---------------------------------------------------------------- calls of any shape -/
def actSrcs : List Act.Src := [.stat, .status, .smaps]

def parseWorld (j : Json) : R Act.World := do
  let l ← asList asNat j
  pure fun s => match s with
    | .stat => l.getD 0 0
    | .status => l.getD 1 0
    | .smaps => l.getD 2 0

def parseActStep (j : Json) : R Act.Step :=
  match j.getArr? with
  | .ok #[k] => do
    let k ← asStr k
    if k == "tick" then pure .tick else .error s!"bad act step {k}"
  | .ok #[k, s, vf] => do
    let k ← asStr k
    if k != "get" then .error s!"bad act step {k}" else
    let i ← asNat s
    match actSrcs[i]? with
    | some src => return .get src (← asBool vf)
    | none => .error "bad source"
  | _ => .error "bad act step"

def parseActOp (j : Json) : R Act.Op :=
  match j.getArr? with
  | .ok #[k] => do
    let k ← asStr k
    if k == "enter" then pure .enter else if k == "exit" then pure .exit else .error s!"bad act op {k}"
  | .ok #[k, a] => do
    let k ← asStr k
    if k == "change" then return .change (← parseWorld a) else .error s!"bad act op {k}"
  | .ok #[k, fn, b, ws] => do
    let k ← asStr k
    if k != "call" then .error s!"bad act op {k}" else
    return .call (Act.bodyOf (← asStr fn) (← asList parseActStep b)) (← asList parseWorld ws)
  | _ => .error "bad act op"

def actReads : Act.St → List Act.Op → List (List Nat)
  | _, [] => []
  | σ, o :: os => let σ' := (Act.step σ o).1; actSrcs.map σ'.reads :: actReads σ' os

def handleAct (j : Json) : R Json := do
  let w ← parseWorld (← field j "w")
  let hist ← listF parseActOp j "hist"
  pure (jObj [("model", jObj [("outs", jList (jList jNat) (Act.outs (Act.St.init w) hist)),
                              ("reads", jList (jList jNat) (actReads (Act.St.init w) hist))]),
              ("spec", jObj [("outs", jList (jList jNat) (Act.ASpec.outsS (Act.ASpec.SSt.init w) hist))])])

def handle (d : DSt) (j : Json) : R (DSt × Json) := do
  let op ← strF j "op"
  if op == "reset" then
    return (DSt.init, ok (Json.str "reset"))
  if op == "conc" then
    return (d, ← handleConc j)
  if op == "conc2" then
    return (d, ← handleConc2 j)
  if op == "rec" then
    return (d, ← handleRec j)
  if op == "act" then
    return (d, ← handleAct j)
  let o ← parseOp j
  let (y', out) := step cfg d.y o
  let (ss', w', outS) := Spec.stepS cfg.meths cfg.validNames d.ss d.w o
  return (⟨y', ss', w'⟩,
    jObj [("model", jObj [("out", jOut out), ("reads", jReads y'.st.reads), ("probes", jNat y'.st.probes)]),
          ("spec", jObj [("out", jOut outS), ("reads", jReads ss'.reads)])])

def main : IO Unit := Proto.run DSt.init (total handle)
