/- Driver/C03.lean — line-protocol driver for the C03 model (see Base/Proto.lean).

   {"op":"world","target":T,"procs":[{pid,ppid,ctime,long,guess,tids:[[t,stale]],fds:[[fd,kind]],stale,
                                       maps:["anon"|"file"|"deleted"|"literal",..]}]}
   (maps = the mappings of smaps in file order; "deleted" = the name ends in " (deleted)" and no such file exists,
    "literal" = … and a file of that literal name exists; trace entry of the probe: "stat <pid>/map/<i>")
   {"op":"run","method":m,"attrs":[..],"plan":{"switch":[[k,"zombie"|"gone"]],"deny":[[k,"EACCES"|"EPERM"]]},
    "impl":{"kind":"ok","shape":..}|{"kind":"exc","exc":cls,"pid":p|null}}
     → {"model":outcome,"trace":[..],"spec":{"ok":b,"ok_any":b,"value":b|null,"gone_nsp":b|null,"cause":b|null}}
   `ok` = Spec.OKV (value clause included: the returned object's shape, `impl.shape`, must be the documented one of the
   call; `impl.vals` = [[name, shape],..] the values an as_dict/process_iter result stores); `value` = that clause alone.
   Shapes: "int"|"float"|"str"|"estr"|"none"|"dict"|["bool",b]|["tuple",n]|["list",n]|["proc",p]|["procs",[..]]|
   ["asdict",n,ad,bad]|["iter",[[pid,n,ad,bad],..]]|["exc",cls,pid|null] (an exception INSTANCE returned)|["unknown",type]
   ("cause_k1":n on a run line = the number of accesses the implementation made; then `cause` = Spec.Cause over
    accesses 0..n-1 decided on the implementation's outcome. method "as_dict_all" = as_dict() with `attrs` = all names)
   {"op":"hist","methods":[m,..],"plan":{..},"gone_from":k0|null,"impls":[outcome,..]}   (several calls on ONE object)
     → {"models":[outcome,..],"starts":[k,..],"trace":[..],"spec":{"ok":[b,..],"gone_answer":[b|null,..]}}
   `gone_answer[i]` = Spec.GoneAnswer decided on the implementation's i-th outcome when that call started at a
   counter ≥ gone_from (null otherwise).
   `spec` is Spec.OK / Spec.IsNSP decided on the IMPLEMENTATION's outcome. -/
import PsutilModel.Base.Proto
import PsutilModel.Model.C03Gen
import PsutilModel.Spec.C03
import PsutilModel.Model.C03Hist
import PsutilModel.Spec.C03Hist
open Lean Psutil Psutil.Proto Psutil.C03

def parseFdKind (s : String) : R FdKind :=
  if s == "file" then .ok .file else if s == "sock" then .ok .sock else if s == "other" then .ok .other
  else if s == "stale" then .ok .stale else if s == "infoStale" then .ok .infoStale
  else .error s!"bad fd kind {s}"

def parseMapKind (s : String) : R MapKind :=
  if s == "anon" then .ok .anon else if s == "file" then .ok .file else if s == "deleted" then .ok (.deleted false)
  else if s == "literal" then .ok (.deleted true) else .error s!"bad mapping kind {s}"

def parsePair {α β : Type} (f : Json → R α) (g : Json → R β) (j : Json) : R (α × β) :=
  match j.getArr? with
  | .ok #[a, b] => do pure (← f a, ← g b)
  | _ => .error s!"not a pair: {j.compress}"

def parseProc (j : Json) : R ProcInfo := do
  let pid ← natF j "pid"
  let ppid ← natF j "ppid"
  let ctime ← natF j "ctime"
  let long ← boolF j "long"
  let guess ← boolF j "guess"
  let tids ← listF (parsePair asNat asBool) j "tids"
  let fds ← listF (parsePair asNat (fun x => asStr x >>= parseFdKind)) j "fds"
  let stale ← boolF j "stale"
  let maps ← listF (fun x => asStr x >>= parseMapKind) j "maps"
  pure { pid, ppid, ctime, long, guess, tids, fds, stale, maps }

def parseWorld (j : Json) : R World := do
  let target ← natF j "target"
  let procs ← listF parseProc j "procs"
  pure { target, procs }

def parseWS (s : String) : R WS :=
  if s == "alive" then .ok .alive else if s == "zombie" then .ok .zombie else if s == "gone" then .ok .gone
  else .error s!"bad state {s}"

def parseErrno (s : String) : R Errno :=
  if s == "ENOENT" then .ok .ENOENT else if s == "ESRCH" then .ok .ESRCH else if s == "EACCES" then .ok .EACCES
  else if s == "EPERM" then .ok .EPERM else .error s!"bad errno {s}"

def parsePlan (j : Json) : R ((Nat → WS) × (Nat → Option Errno)) := do
  let sw ← (match j.getObjVal? "switch" with
            | .ok v => asList (parsePair asNat (fun x => asStr x >>= parseWS)) v
            | .error _ => pure [])
  let dn ← (match j.getObjVal? "deny" with
            | .ok v => asList (parsePair asNat (fun x => asStr x >>= parseErrno)) v
            | .error _ => pure [])
  -- state = the switch entry with the largest index <= k
  let ws : Nat → WS := fun k =>
    (sw.foldl (fun (acc : Option (Nat × WS)) e =>
      if e.1 ≤ k then
        match acc with
        | some (i, _) => if i ≤ e.1 then some e else acc
        | none => some e
      else acc) none).elim .alive (·.2)
  let deny : Nat → Option Errno := fun k => dn.lookup k
  pure (ws, deny)

def fileName : PFile → String
  | .stat => "stat" | .status => "status" | .statm => "statm" | .io => "io" | .cmdline => "cmdline"
  | .environ => "environ" | .smaps => "smaps" | .smapsRollup => "smaps_rollup"

def pathStr : Path → String
  | .root => "."
  | .pidDir p => s!"{p}"
  | .file p f => s!"{p}/{fileName f}"
  | .link p .exe => s!"{p}/exe"
  | .link p .cwd => s!"{p}/cwd"
  | .dir p .fd => s!"{p}/fd"
  | .dir p .task => s!"{p}/task"
  | .taskStat p t => s!"{p}/task/{t}/stat"
  | .fdLink p fd => s!"{p}/fd/{fd}"
  | .fdInfo p fd => s!"{p}/fdinfo/{fd}"
  | .net .tcp => "net/tcp" | .net .tcp6 => "net/tcp6" | .net .udp => "net/udp" | .net .udp6 => "net/udp6"
  | .net .unix => "net/unix"
  | .mapFile p i => s!"{p}/map/{i}"

def opStr : Op → String
  | .openF => "open" | .readF => "read" | .readlink => "readlink" | .listdir => "listdir"
  | .stat => "stat" | .lstat => "lstat"

def accStr : OsAcc → String
  | .fs op p => s!"{opStr op} {pathStr p}"
  | .native .getpriority q => s!"native getpriority {q}"
  | .native .affinityGet q => s!"native affinity {q}"
  | .native .ioprioGet q => s!"native ioprio {q}"
  | .native .prlimit q => s!"native prlimit {q}"

def jStrs (l : List String) : Json := jList Json.str l

def excName : PyExc → String × Option Nat
  | .fnf => ("FileNotFoundError", none) | .ple => ("ProcessLookupError", none) | .perm => ("PermissionError", none)
  | .nsp p => ("NoSuchProcess", some p) | .zombie p => ("ZombieProcess", some p) | .ad p => ("AccessDenied", some p)
  | .indexError => ("IndexError", none) | .valueError => ("ValueError", none) | .keyError => ("KeyError", none)
  | .typeError => ("TypeError", none) | .runtimeError => ("RuntimeError", none)
  | .notImplemented => ("NotImplementedError", none)


def jVal : Val → Json
  | .none => "none" | .int => "int" | .float => "float" | .str => "str" | .estr => "estr" | .dict => "dict"
  | .bool b => Json.arr #["bool", Json.bool b]
  | .tuple n => Json.arr #["tuple", jNat n]
  | .list n => Json.arr #["list", jNat n]
  | .proc p => Json.arr #["proc", jNat p]
  | .procs l => Json.arr #["procs", jList jNat l]
  | .asdict n ad bad => Json.arr #["asdict", jNat n, jStrs ad, jStrs bad]
  | .iter l => Json.arr #["iter", jList (fun x => Json.arr #[jNat x.1, jNat x.2.1, jStrs x.2.2.1, jStrs x.2.2.2]) l]
  | .exc e => let (n, p) := excName e; Json.arr #["exc", Json.str n, jOpt jNat p]
  | .other => Json.arr #["unknown"]

def jOutcome : Except PyExc Val → Json
  | .ok v => jObj [("kind", "ok"), ("shape", jVal v)]
  | .error e =>
    let (n, p) := excName e
    jObj [("kind", "exc"), ("exc", Json.str n), ("pid", jOpt jNat p)]

/-- the implementation's outcome as far as the Spec needs it: value, or an exception object
    (`none` = a class the model has no constructor for: never acceptable) -/
def parseImpl (j : Json) : R (Option (Except PyExc Unit)) := do
  let kind ← strF j "kind"
  if kind == "ok" then return some (.ok ())
  let cls ← strF j "exc"
  let pid ← optF asNat j "pid"
  let withPid (f : Nat → PyExc) : Option (Except PyExc Unit) := pid.map (fun p => .error (f p))
  if cls == "NoSuchProcess" then return withPid .nsp
  if cls == "ZombieProcess" then return withPid .zombie
  if cls == "AccessDenied" then return withPid .ad
  if cls == "FileNotFoundError" then return some (.error .fnf)
  if cls == "ProcessLookupError" then return some (.error .ple)
  if cls == "PermissionError" then return some (.error .perm)
  if cls == "IndexError" then return some (.error .indexError)
  if cls == "ValueError" then return some (.error .valueError)
  if cls == "KeyError" then return some (.error .keyError)
  if cls == "TypeError" then return some (.error .typeError)
  return none

def sortInsert (x : String) : List String → List String
  | [] => [x]
  | y :: ys => if x ≤ y then x :: y :: ys else y :: sortInsert x ys

/-- canonical order of the ad_value names (the harness sorts them too) -/
def canonVal : Val → Val
  | .asdict n ad bad => .asdict n (ad.foldr sortInsert []) (bad.foldr sortInsert [])
  | .iter l => .iter (l.map fun x => (x.1, x.2.1, x.2.2.1.foldr sortInsert [], x.2.2.2.foldr sortInsert []))
  | v => v

/-- an exception object by class name (`none`: a class the model has no constructor for) -/
def excOf (cls : String) (pid : Option Nat) : Option PyExc :=
  let withPid (f : Nat → PyExc) : Option PyExc := pid.map f
  if cls == "NoSuchProcess" then withPid .nsp
  else if cls == "ZombieProcess" then withPid .zombie
  else if cls == "AccessDenied" then withPid .ad
  else if cls == "FileNotFoundError" then some .fnf
  else if cls == "ProcessLookupError" then some .ple
  else if cls == "PermissionError" then some .perm
  else if cls == "IndexError" then some .indexError
  else if cls == "ValueError" then some .valueError
  else if cls == "KeyError" then some .keyError
  else if cls == "TypeError" then some .typeError
  else none

/-- the shape of a RETURNED object as the harness reports it (the inverse of `jVal`); an exception instance of a class
    the model does not know, and any object of an undocumented type, is `Val.other` — never well-formed -/
partial def parseShape (j : Json) : R Val := do
  match j with
  | Json.str "int" => return .int
  | Json.str "float" => return .float
  | Json.str "str" => return .str
  | Json.str "estr" => return .estr
  | Json.str "none" => return .none
  | Json.str "dict" => return .dict
  | Json.arr #[Json.str "bool", Json.bool b] => return .bool b
  | Json.arr #[Json.str "tuple", n] => return .tuple (← asNat n)
  | Json.arr #[Json.str "list", n] => return .list (← asNat n)
  | Json.arr #[Json.str "proc", p] => return .proc (← asNat p)
  | Json.arr #[Json.str "procs", l] => return .procs (← asList asNat l)
  | Json.arr #[Json.str "asdict", n, ad, bad] => return .asdict (← asNat n) (← asList asStr ad) (← asList asStr bad)
  | Json.arr #[Json.str "iter", l] =>
    let items ← asList (fun x => match x with
      | Json.arr #[p, n, ad, bad] => do pure ((← asNat p), (← asNat n), (← asList asStr ad), (← asList asStr bad))
      | _ => .error s!"bad iter item {x.compress}") l
    return .iter items
  | Json.arr #[Json.str "exc", Json.str cls, pid] =>
    let p ← (match pid with | Json.null => pure none | v => do pure (some (← asNat v)))
    match excOf cls p with
    | some e => return .exc e
    | none => return .other
  | Json.arr #[Json.str "unknown", _] => return .other
  | Json.arr #[Json.str "unknown"] => return .other
  | _ => .error s!"bad value shape {j.compress}"

/-- the implementation's outcome WITH the returned object's shape (what `Spec.OKV` judges) -/
def parseImplFull (j : Json) : R (Option (Except PyExc Val)) := do
  let kind ← strF j "kind"
  if kind == "ok" then
    let v ← field j "shape" >>= parseShape
    return some (.ok v)
  let cls ← strF j "exc"
  let pid ← optF asNat j "pid"
  return (excOf cls pid).map .error

/-- the values an as_dict / process_iter result stores under each name (ad_value left out): each must be the documented
    result of that name -/
def parseVals (j : Json) : R (List (String × Val)) :=
  match j.getObjVal? "vals" with
  | .ok v => asList (parsePair asStr parseShape) v
  | .error _ => pure []

/-- the name `Spec.WellFormed` knows the call by -/
def specName (m : String) : String := m

def program (w : World) (m : String) (attrs : List String) : Option (M Val) :=
  let o := w.obj
  if m == "as_dict" then
    some (do let (n, ad, bad) ← Fe.asDict cfg o attrs; pure (.asdict n ad bad))
  else if m == "as_dict_all" then
    -- as_dict() / as_dict(attrs=None): `attrs` = the names of `_as_dict_attrnames` in the set's iteration order
    some (do let (n, ad, bad) ← Fe.asDictAll cfg o attrs; pure (.asdict n ad bad))
  else if m == "process_iter" then some (Fe.processIter cfg attrs)
  -- memory_maps(grouped=False): the same platform call, every item wrapped instead of grouped (all names are distinct)
  else if m == "memory_maps_flat" then Fe.getter cfg o "memory_maps"
  else Fe.method cfg o m

/-- the implementation's outcome with the one value shape `GoneAnswer` looks at (is_running() → bool) -/
def parseImplVal (j : Json) : R (Option (Except PyExc Val)) := do
  match ← parseImpl j with
  | none => return none
  | some (.error e) => return some (.error e)
  | some (.ok ()) =>
    match j.getObjVal? "shape" with
    | .ok (Json.arr #[Json.str "bool", Json.bool b]) => return some (.ok (.bool b))
    | _ => return some (.ok .none)

def handleHist (w : World) (j : Json) : R Json := do
  let ms ← listF asStr j "methods"
  let (ws, deny) ← field j "plan" >>= parsePlan
  let goneFrom ← optF asNat j "gone_from"
  let impls ← listF parseImplFull j "impls"
  let calls ← ms.mapM (fun m => match Fe.methodH cfg w.obj m with
                                 | some h => pure h
                                 | none => .error s!"{m} is not a history call")
  let c : Ctx := { w := w, ws := ws, deny := deny }
  -- thread the state by hand to keep the final trace
  let rec go : List HCall → Flags → St → List (Nat × Except PyExc Val) × St
    | [], _, s => ([], s)
    | h :: rest, f, s =>
      match h f c s with
      | (.ok (out, f'), s') => let (l, sf) := go rest f' s'; ((s.k, out) :: l, sf)
      | (.error e, s') => let (l, sf) := go rest f s'; ((s.k, .error e) :: l, sf)
  let (outs, st) := go calls {} {}
  let specOk : List Json := (ms.zip impls).map fun (m, i) => match i with
    | none => Json.bool false
    | some o => Json.bool (decide (Spec.OKV w.target (specName m) o))
  let ans : List Json := (ms.zip (outs.zip impls)).map fun (m, (start, _), impl) =>
    match goneFrom with
    | some k0 =>
      if k0 ≤ start then
        match impl with
        | none => Json.bool false
        | some o => Json.bool (decide (Spec.GoneAnswer w.target m o))
      else Json.null
    | none => Json.null
  return jObj [("models", jList (fun x => jOutcome (x.2.map canonVal)) outs),
               ("starts", jList (fun x => jNat x.1) outs),
               ("trace", jList Json.str (st.trace.reverse.map accStr)),
               ("spec", jObj [("ok", Json.arr specOk.toArray), ("gone_answer", Json.arr ans.toArray)])]

def handle (w : Option World) (j : Json) : R (Option World × Json) := do
  let op ← strF j "op"
  if op == "world" then
    let w' ← parseWorld j
    return (some w', ok (Json.str "world"))
  if op == "hist" then
    match w with
    | none => .error "no world"
    | some w => return (some w, ← handleHist w j)
  if op != "run" then .error s!"unknown op {op}"
  match w with
  | none => .error "no world"
  | some w =>
    let m ← strF j "method"
    let attrs ← (match j.getObjVal? "attrs" with
                 | .ok v => asList asStr v
                 | .error _ => pure [])
    let (ws, deny) ← field j "plan" >>= parsePlan
    let implJ ← field j "impl"
    let impl ← parseImpl implJ
    let implV ← parseImplFull implJ
    let vals ← parseVals implJ
    -- "cause_k1": number of OS accesses the IMPLEMENTATION performed (given only for the property's plan shapes)
    let causeK1 ← optF asNat j "cause_k1"
    match program w m attrs with
    | none => .error s!"method {m} is not modelled"
    | some prog =>
      let c : Ctx := { w := w, ws := ws, deny := deny }
      let (out, st) := run prog c
      let goneStart := decide (ws 0 = .gone) && (deny 0).isNone
      -- Spec.OKV: psutil error carrying the pid, or a value of the DOCUMENTED shape of this call — and every value an
      -- as_dict / process_iter result stores is the documented result of its name
      let valsOk : Bool := vals.all (fun x => Spec.WellFormedB x.1 x.2)
      let specOk : Bool := match implV with
        | none => false
        | some o => decide (Spec.OKV w.target (specName m) o) && valsOk
      let specValue : Json := match implV with
        | some (.ok v) => Json.bool (Spec.WellFormedB (specName m) v && valsOk)
        | _ => Json.null
      let specAny : Bool := match impl with
        | none => false
        | some o => decide (Spec.OKany o)
      let goneNsp : Json :=
        if goneStart && !(Spec.goneExempt.contains m) && m != "as_dict" && m != "process_iter" then
          match impl with
          | none => Json.bool false
          | some o => Json.bool (decide (Spec.IsNSP w.target o))
        else Json.null
      -- Spec.Cause decided on the IMPLEMENTATION's outcome over the accesses it performed
      let cause : Json := match causeK1, impl with
        | some k1, some o => Json.bool (decide (Spec.Cause ws deny 0 k1 o))
        | some _, none => Json.bool false
        | none, _ => Json.null
      return (some w, jObj [("model", jOutcome (out.map canonVal)),
                            ("trace", jList Json.str (st.trace.reverse.map accStr)),
                            ("spec", jObj [("ok", Json.bool specOk), ("ok_any", Json.bool specAny), ("value", specValue), ("gone_nsp", goneNsp),
                                           ("cause", cause)])])

def main : IO Unit := Proto.run (none : Option World) (total handle)
