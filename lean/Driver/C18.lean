/- Driver/C18.lean — line-protocol driver for the C18 model (see Base/Proto.lean).

   in:  {"op":"reset","self":n,"ncpu":n (= nr_cpu_ids),["stat_cpus":n (cpuN lines of /proc/stat; default ncpu),]"nr_open":n,
         "cap":bool (CAP_SYS_RESOURCE),["cap_nice":bool (CAP_SYS_NICE; default true),]
         "procs":[{"pid":n,"nice":i,"ioprio":n,"affinity":[n],"cpuset":[n],"rlimits":[[s,h]×16],["foreign":bool (another user's)]}]}
        {"op":"call","pid":n,["errno":n,]["status_mask":[n]|null,]   (execution context: C errno on entry of the native
                                                                      layer; mask shown by the cached status file)
                             ["import_pid":n,]["create_pid":n,]      (pid of the process that imported the module / made
                                                                      the Process object; default: the caller `self`)
                             "req":{"kind":"nice","value":i|null}
                                   |{"kind":"ionice","ioclass":i|null,"value":i|null}
                                   |{"kind":"cpu_affinity","cpus":[i]|null}
                                   |{"kind":"rlimit","res":i,"limits":[i]|null}}
        optional in req: "value_form"/"ioclass_form"/"res_form": "int"|"enum"|"bool"; "cpus_form": "list"|"tuple"|"set"|
        "range"|"iterator"; "limits_form": "tuple"|"list"|"iterator"   (the arguments as Python objects: Model §6)
        {"op":"pack","cls":n,"data":n} / {"op":"unpack","v":n}       (native-layer packing only)
        {"op":"eligible","pid":n,["status_mask":[n]|null]}           (the helper `_get_eligible_cpus()` only)
   out: {"model":{"out":…,"procs":[…],"log":[…]}, "spec": null | {"out":…,"procs":[…],"log":[…]},
         "honest": null | [{"out":…,"procs":[…],"log":[…]}]}   (a get form the kernel refuses to this caller: the admissible
                                                                 results — Spec/C18Refused.lean)
-/
import PsutilModel.Base.Proto
import PsutilModel.Model.C18Gen
import PsutilModel.Spec.C18Refused
open Lean Psutil Psutil.Proto Psutil.C18

structure DSt where
  k : Kernel
  pids : List Nat

def emptyKernel : Kernel :=
  { procs := fun _ => none, self := 1, ncpu := 1, nrOpen := 1048576, capResource := true, log := [] }

def parsePair (j : Json) : R (Nat × Nat) :=
  match j.getArr? with
  | .ok #[a, b] => do pure (← asNat a, ← asNat b)
  | _ => .error "rlimit entry must be [soft, hard]"

def parseProc (j : Json) : R (Nat × PState) := do
  let pid ← natF j "pid"
  let nice ← intF j "nice"
  let ioprio ← natF j "ioprio"
  let aff ← listF asNat j "affinity"
  let cs ← listF asNat j "cpuset"
  let rl ← listF parsePair j "rlimits"
  if rl.length ≠ 16 then .error "rlimits must have 16 entries"
  pure (pid, { nice := nice, ioprio := ioprio, affinity := aff, cpuset := cs,
               rlimits := fun r => rl.getD r (0, 0), foreign := (← optF asBool j "foreign").getD false })

/-- an int-like argument in the form named by the optional field `<key>_form` ("int" when absent) -/
def scalarOf (j : Json) (key : String) (v : Int) : R Scalar := do
  match (← optF asStr j (key ++ "_form")).getD "int" with
  | "int" => pure (.int v)
  | "enum" => pure (.enum v)
  | "bool" => if v = 0 then pure (.bool false) else if v = 1 then pure (.bool true) else .error "bool form needs 0 or 1"
  | f => .error s!"unknown scalar form {f}"

def optScalar (j : Json) (key : String) : R (Option Scalar) := do
  match ← optF asInt j key with
  | none =>
    if (← optF asStr j (key ++ "_form")).isSome then .error s!"{key}_form given for None" else pure none
  | some v => pure (some (← scalarOf j key v))

def cpuFormOf : String → R CpuForm
  | "list" => pure .list | "tuple" => pure .tuple | "set" => pure .set | "range" => pure .range
  | "iterator" => pure .iterator | f => .error s!"unknown cpus form {f}"

def limFormOf : String → R LimForm
  | "tuple" => pure .tuple | "list" => pure .list | "iterator" => pure .iterator
  | f => .error s!"unknown limits form {f}"

def parseReq (j : Json) : R PyReq := do
  let kind ← strF j "kind"
  if kind == "nice" then
    pure (.nice (← optScalar j "value"))
  else if kind == "ionice" then
    pure (.ionice (← optScalar j "ioclass") (← optScalar j "value"))
  else if kind == "cpu_affinity" then
    match ← optF (asList asInt) j "cpus" with
    | none => pure (.cpuAffinity none)
    | some l => pure (.cpuAffinity (some (← cpuFormOf ((← optF asStr j "cpus_form").getD "list"), l)))
  else if kind == "rlimit" then
    let res ← scalarOf j "res" (← intF j "res")
    match ← optF (asList asInt) j "limits" with
    | none => pure (.rlimit res none)
    | some l => pure (.rlimit res (some (← limFormOf ((← optF asStr j "limits_form").getD "tuple"), l)))
  else .error s!"unknown request kind {kind}"

def errnoName : Errno → String
  | .ESRCH => "ESRCH" | .EINVAL => "EINVAL" | .EPERM => "EPERM" | .EACCES => "EACCES"

def jExc : Exc → Json
  | .valueError => jObj [("kind", "exc"), ("exc", "ValueError")]
  | .overflowError => jObj [("kind", "exc"), ("exc", "OverflowError")]
  | .typeError => jObj [("kind", "exc"), ("exc", "TypeError")]
  | .osError e => jObj [("kind", "exc"), ("exc", "OSError"), ("errno", Json.str (errnoName e))]
  | .osRaw n => jObj [("kind", "exc"), ("exc", "OSError"), ("errno", jNat n)]
  | .accessDenied p => jObj [("kind", "exc"), ("exc", "AccessDenied"), ("pid", jNat p)]
  | .noSuchProcess p => jObj [("kind", "exc"), ("exc", "NoSuchProcess"), ("pid", jNat p)]
  | .undefinedC => jObj [("kind", "undefined-c")]
  | .hang => jObj [("kind", "hang")]

def jVal : Val → Json
  | .none => Json.null
  | .int v => jInt v
  | .ionice c d => jObj [("ioclass", jNat c), ("data", jNat d)]
  | .cpus l => jList jNat l
  | .limits s h => Json.arr #[jInt s, jInt h]

def jOut : Out → Json
  | .ok v => jObj [("kind", "ok"), ("value", jVal v)]
  | .exc e => jExc e

def jEff : Eff → Json
  | .nice p v => Json.arr #["nice", jNat p, jInt v]
  | .ioprio p v => Json.arr #["ioprio", jNat p, jNat v]
  | .affinity p l => Json.arr #["affinity", jNat p, jList jNat l]
  | .rlimit p r s h => Json.arr #["rlimit", jNat p, jNat r, jNat s, jNat h]

def jProc (pid : Nat) (st : PState) : Json :=
  jObj [("pid", jNat pid), ("nice", jInt st.nice), ("ioprio", jNat st.ioprio),
        ("affinity", jList jNat st.affinity), ("cpuset", jList jNat st.cpuset),
        ("rlimits", jList (fun r => Json.arr #[jNat (st.rlimits r).1, jNat (st.rlimits r).2])
                      (List.range 16))]

def jKernel (pids : List Nat) (k : Kernel) : List (String × Json) :=
  [("procs", Json.arr (pids.filterMap fun p => (k.procs p).map (jProc p)).toArray),
   ("log", jList jEff k.log)]

def jResult (pids : List Nat) (o : Out) (k : Kernel) : Json :=
  jObj (("out", jOut o) :: jKernel pids k)

def handle (d : DSt) (j : Json) : R (DSt × Json) := do
  let op ← strF j "op"
  if op == "reset" then
    let ps ← listF parseProc j "procs"
    let k : Kernel :=
      { procs := fun q => ps.lookup q
        self := ← natF j "self", ncpu := ← natF j "ncpu"
        statCpus := (← optF asNat j "stat_cpus").getD (← natF j "ncpu"), nrOpen := ← natF j "nr_open"
        capResource := ← boolF j "cap", capNice := (← optF asBool j "cap_nice").getD true, log := [] }
    return (⟨k, ps.map (·.1)⟩, ok (Json.str "reset"))
  if op == "pack" then
    return (d, ok (jNat (ioprioPack cfg.shift (← natF j "cls") (← natF j "data"))))
  if op == "unpack" then
    let (c, x) := ioprioUnpack cfg.shift (← natF j "v")
    return (d, ok (Json.arr #[jNat c, jNat x]))
  if op == "eligible" then
    -- `_get_eligible_cpus()` of the model alone (status file read now, or the cached one showing `status_mask`)
    let pid ← natF j "pid"
    let r := getEligibleCpusX d.k pid (← optF (asList asNat) j "status_mask")
    return (d, ok (match r with | none => Json.null | some l => jList jNat l))
  if op == "call" then
    let pid ← natF j "pid"
    let req ← field j "req" >>= parseReq
    -- the log is per call: start each call with an empty one
    let k0 : Kernel := { d.k with log := [] }
    let x : Ctx := { errnoIn := (← optF asNat j "errno").getD 0, statusMask := ← optF (asList asNat) j "status_mask" }
    -- who is calling: `self` of the reset line is the calling process; the pids the program remembers from
    -- import time / object creation differ from it after a fork (default: no fork)
    let og : Origin := { importPid := (← optF asNat j "import_pid").getD k0.self,
                         createPid := (← optF asNat j "create_pid").getD k0.self }
    let (o, k') := stepPyA rlimitAlt cpuNumBits cfg routing og k0 pid x req
    let spec : Json :=
      if pid = 0 then Json.null
      else match k0.procs pid with
        | none => Json.null
        | some st =>
          match Spec.expectPy k0 pid st req with
          | .unconstrained => Json.null
          | .promised so sk => jResult d.pids so sk
    let honest : Json :=
      if pid = 0 then Json.null
      else match k0.procs pid with
        | none => Json.null
        | some st =>
          match Spec.refusedGetAnswersPy k0 pid st req with
          | none => Json.null
          | some outs => Json.arr (outs.map fun so => jResult d.pids so k0).toArray
    return (⟨k', d.pids⟩, jObj [("model", jResult d.pids o k'), ("spec", spec), ("honest", honest)])
  .error s!"unknown op {op}"

def main : IO Unit := Proto.run (⟨emptyKernel, []⟩ : DSt) (total handle)
