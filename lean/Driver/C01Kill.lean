/- Driver/C01Kill.lean — line-protocol driver for the kill(2)-argument clause of C01 (Model/C01KillDriver.lean) on
   the call graph extracted into Generated/C01.lean. -/
import PsutilModel.Model.C01KillDriver
import PsutilModel.Model.C01KillGen

def main : IO Unit := Psutil.C01.Kill.Drv.main Psutil.C01.Kill.kcfg
