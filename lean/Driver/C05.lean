/- Driver/C05.lean — line-protocol driver for the C05 model (see Base/Proto.lean).

   {"op":"tree","call":"children"|"children_rec"|"parent"|"parents","pid":P,
    "mk":rows,"mid":rows|null,"lowest":n|null,"t0":rows,"t1":rows|null}        rows = [[pid,ppid,start],…]
      the Process object is built on table `mk`, optionally `is_running()` is called on `mid`,
      `_LOWEST_PID` is `lowest`, then `call` runs: identity check + ppid_map() on `t0`, every
      later look-up on `t1` (default `t0`).
      The answer is a function of these tables only: whatever psutil calls ran earlier in the
      interpreter (`process_iter()` filling `psutil._pmap`, …) are deliberately NOT part of the
      driver's input, so an implementation whose result depends on them disagrees with `spec`.
   {"op":"stat","pid":n,"comm":hex,"state":hex,"ppid":n,"start":n,"pre":[hex…],"post":[hex…]}
      renders the stat line (kernel format) and reads it back with both readers.
   {"op":"dyn","call":…,"pid":P,"mk":xrows,"lowest":n|null,"t0":xrows,"t1":xrows|null,
    "steps":[[xrows,xrows,xrows],…]|null,"oneshot":null|"fresh"|xrows,"statmemo":xrows|absent}      xrows = [[pid,ppid,start,"R"|"Z"|"X"|"G"],…]
      the richer world of Model/C05Dyn.lean: "Z" = zombie, "X" = stat file unreadable (EACCES), "G" = the
      directory /proc/<pid> is still listed but its stat file is gone (the process is exiting).
      children: identity check + ppid_map() on `t0` (listing = every row of t0), look-ups on `t1`.
      parent/parents: the i-th `parent()` call sees steps[i] = [identity check, own stat read,
      Process(ppid)] (the last entry repeats; default t0 everywhere); pids() lists t0.
      oneshot: the call runs inside `with p.oneshot():`, after a first `p.ppid()` on the given table
      ("fresh": nothing called before).
      oneshot stat memo (another stat-based method ran in the block before): the harness sends the table
      the memo was filled on as the own-stat world of step 0 — `PStep.withStatMemo`.
      RANGE GATE (Model/C05Range.lean): in every op the MODEL looks processes up through `Process(pid)`'s range check
      (`rcfg`: the limit the translator read off psutil_check_pid_range() / Process._init()); the SPEC never looks at the
      magnitude of a PID. When the gate refuses the caller's own PID the model's answer is
      {"kind":"exc","exc":"NoSuchProcess","pid":P,"at":"construct"} (the object cannot be built).
      `spec` is null where the specification is silent (which exception an unreadable stat file on the
      path of parent()/parents() produces; a caller whose own stat file is unreadable while it is still
      the same incarnation; a oneshot cache hit). An unreadable caller whose PID was in fact recycled must
      get NoSuchProcess. When processes turn unreadable while children() walks, `spec` is the exact value
      and `alt_denied` lists the PIDs for which AccessDenied(pid) may escape instead (C05_children_outcomes).
-/
import PsutilModel.Base.Proto
import PsutilModel.Model.C05Gen
import PsutilModel.Spec.C05
import PsutilModel.Spec.C05Stat
import PsutilModel.Spec.C05Dyn
open Lean Psutil Psutil.Proto Psutil.C05

def parseRow (j : Json) : R Row := do
  match j.getArr? with
  | .ok #[a, b, c] => do
    let a ← asNat a
    let b ← asNat b
    let c ← asNat c
    pure ⟨a, b, c⟩
  | _ => .error "row must be [pid, ppid, start]"

def parseTable (j : Json) : R Table := asList parseRow j

def sortNat (l : List Nat) : List Nat := l.mergeSort (fun a b => decide (a ≤ b))

def jRow (r : Row) : Json := Json.arr #[jNat r.pid, jNat r.start]

def jExc (cls : String) (pid : Option Nat) : Json :=
  match pid with
  | some p => jObj [("kind", "exc"), ("exc", Json.str cls), ("pid", jNat p)]
  | none => jObj [("kind", "exc"), ("exc", Json.str cls)]

def jOut {α : Type} (f : α → List (String × Json)) : Out α → Json
  | .ok v => jObj (("kind", "ok") :: f v)
  | .nsp p => jExc "NoSuchProcess" (some p)
  | .indexError => jExc "IndexError" none
  | .diverged => jObj [("kind", "diverged")]

/-- children results: every returned `Process` object as `[pid, start]`, where `start` is the start
    time of the incarnation that owns the PID when it is examined (`look pid`) — the object must
    describe the process listed NOW, whatever psutil has cached from earlier calls -/
def jProcs (look : Look) (l : List Nat) : List (String × Json) :=
  [("procs", jList (fun c => Json.arr #[jNat c, jOpt jNat (look c)]) (sortNat l))]
def jParent (o : Option Row) : List (String × Json) := [("parent", jOpt jRow o)]
def jChain (l : List Row) : List (String × Json) := [("chain", jList jRow l)]

def jPOut : POut → Json
  | .ok v => jObj [("kind", "ok"), ("value", jNat v)]
  | .indexError => jExc "IndexError" none
  | .valueError => jExc "ValueError" none

def jXOut {α : Type} (f : α → List (String × Json)) : XOut α → Json
  | .ok v => jObj (("kind", "ok") :: f v)
  | .nsp p => jExc "NoSuchProcess" (some p)
  | .denied p => jExc "AccessDenied" (some p)
  | .permissionError => jExc "PermissionError" none
  | .fileNotFound => jExc "FileNotFoundError" none
  | .indexError => jExc "IndexError" none
  | .diverged => jObj [("kind", "diverged")]

/-- `Process(pid)` refused by the range gate: the object cannot be built -/
def jCtorRefused (pid : Nat) : Json :=
  jObj [("kind", "exc"), ("exc", Json.str "NoSuchProcess"), ("pid", jNat pid), ("at", Json.str "construct")]

/-- one tree call on the object `me` (module state `ps`): identity check + ppid_map() on `t0`, look-ups on `t1`.
    → the fields `model`, `spec` (+ `spec_stop`, `spec_found` for parent()/parents()), `flags`, `closed` -/
def treeAnswer (call : String) (pid : Nat) (ps : Ps) (me : Caller) (t0 t1 : Table) : R (List (String × Json)) := do
  let recycled : Bool := match lookOf t0 pid with
    | some s => s != me.ctime
    | none => false
  let listed : Bool := (lookOf t0 pid).isSome
  -- the incarnation the object was built for no longer owns the PID, or the object knows it is dead
  let dead : Bool := me.gone || me.reused || (lookOf t0 pid != some me.ctime)
  let links := ppidMap t0
  let look := lookOf t1
  let flags := jObj [("pre_gone", Json.bool me.gone), ("pre_reused", Json.bool me.reused),
    ("recycled", Json.bool recycled), ("listed", Json.bool listed), ("dead", Json.bool dead),
    ("min_pid", jOpt jNat (minPid? t0))]
  let nspJ := jExc "NoSuchProcess" (some pid)
  if call == "children" || call == "children_rec" then
    let recursive := call == "children_rec"
    let m := (childrenR rcfg cfg me recursive (lookOf t0) links look).2
    let sat := Spec.descSat links look me.ctime pid
    let isClosed := Spec.closed links look me.ctime pid sat
    let sp := if dead then nspJ
      else if recursive then jObj (("kind", "ok") :: jProcs look (Spec.descList links look me.ctime pid))
      else jObj (("kind", "ok") :: jProcs look (Spec.childList links look me.ctime pid))
    -- the ORDER of the returned list is not specified (a set); as a characterisation of the code it is the
    -- model's: compared unsorted by the harness (`order`)
    let order : Json := match m with
      | .ok l => jList jNat l
      | _ => Json.null
    return [("model", jOut (jProcs look) m), ("order", order), ("spec", sp), ("flags", flags),
      ("closed", Json.bool (isClosed || !recursive))]
  else if call == "parent" then
    -- the plain model's `parent` on the table (C05_static_parent_refines), every construction through the range gate
    let m := (parentXR rcfg cfg ps (stepOfX (Table.toX t0)) me none).2.2.2
    -- `spec`: the LITERAL reading of the statement (no lowest-PID rule; a dead caller gets NoSuchProcess whatever
    -- its PID). `spec_stop`: the same with psutil's rule "the lowest listed PID has no parent" (region of finding
    -- C05-lowest-pid-parent = where the two differ). `spec_found`: …and the stop answering BEFORE the identity
    -- check (region of finding C05-recycled-lowest-pid = where it differs from `spec_stop`).
    let sp := if dead then nspJ else jObj (("kind", "ok") :: jParent (Spec.parentLit t0 pid me.ctime))
    let ss := if dead then nspJ else jObj (("kind", "ok") :: jParent (Spec.parentOf t0 pid me.ctime))
    let sf := if Spec.isRoot t0 pid then jObj (("kind", "ok") :: jParent none) else ss
    return [("model", jXOut jParent m), ("spec", sp), ("spec_stop", ss), ("spec_found", sf),
      ("flags", flags), ("closed", Json.bool true)]
  else if call == "parents" then
    let m := (parentsXR rcfg cfg (parentsFuel t0) ps (fun _ => stepOfX (Table.toX t0)) me none).2
    let sp := if dead then nspJ
      else jObj (("kind", "ok") :: jChain (Spec.chainLitList t0 (t0.length + 1) [pid] pid me.ctime))
    let ss := if dead then nspJ
      else jObj (("kind", "ok") :: jChain (Spec.chainList t0 (t0.length + 1) [pid] pid me.ctime))
    let sf := if Spec.isRoot t0 pid then jObj (("kind", "ok") :: jChain []) else ss
    return [("model", jXOut jChain m), ("spec", sp), ("spec_stop", ss), ("spec_found", sf),
      ("flags", flags), ("closed", Json.bool true)]
  else .error s!"unknown call {call}"

def callOf (call : String) : R Call :=
  if call == "is_running" then pure .isRunning
  else if call == "children" then pure (.children false)
  else if call == "children_rec" then pure (.children true)
  else if call == "parent" then pure .parent
  else if call == "parents" then pure .parents
  else .error s!"unknown call {call}"

def handleTree (j : Json) : R Json := do
  let call ← strF j "call"
  let pid ← natF j "pid"
  let mk ← field j "mk" >>= parseTable
  let mid ← optF parseTable j "mid"
  let lowest ← optF asNat j "lowest"
  let t0 ← field j "t0" >>= parseTable
  let t1o ← optF parseTable j "t1"
  let t1 := t1o.getD t0
  -- EARLIER CALLS ON THE SAME OBJECT (Model/C05Seq.lean): "pre" = [[call, rows], …], each on its own constant table,
  -- `lowest0` = what `_LOWEST_PID` holds before the first of them. The object (and `_LOWEST_PID`) are threaded
  -- through `afterCall`; every earlier call is answered like a call of its own.
  let pre ← optF (asList fun e => do
      match e.getArr? with
      | .ok #[c, t] => do
        let c ← asStr c
        let t ← parseTable t
        pure (c, t)
      | _ => .error "pre entry must be [call, rows]") j "pre"
  let lowest0 ← optF asNat j "lowest0"
  let me0 ← (match mkProcess (lookOf mk) pid with
    | .ok c => pure c
    | _ => .error s!"pid {pid} is not listed in mk")
  let (me1, running) : Caller × Option Bool := match mid with
    | none => (me0, none)
    | some tm => let r := isRunning (lookOf tm) me0; (r.1, some r.2)
  let mut st : Ps × Caller := (⟨lowest0⟩, me1)
  let mut preOut : List Json := []
  for (c, t) in pre.getD [] do
    let cl ← callOf c
    if c == "is_running" then
      preOut := preOut ++ [jObj [("model", Json.bool (isRunning (lookOf t) st.2).2), ("spec", Json.null)]]
    else
      let a ← treeAnswer c pid st.1 st.2 t t
      preOut := preOut ++ [jObj a]
    st := afterCall cfg t st cl
  let me := st.2
  let ps : Ps := ⟨lowest⟩
  let jrun := jOpt Json.bool running
  let a ← treeAnswer call pid ps me t0 t1
  -- the object itself is built through the gate: a refused PID cannot be opened at all
  let a := match mkProcessR rcfg (lookOf mk) pid with
    | .ok _ => a
    | _ => a.map fun kv => if kv.1 == "model" then ("model", jCtorRefused pid) else kv
  return jObj (a ++ [("running", jrun), ("pre", Json.arr preOut.toArray),
    ("lowest_after_pre", jOpt jNat st.1.lowest)])

def handleStat (j : Json) : R Json := do
  let pid ← natF j "pid"
  let comm ← bytesF j "comm"
  let state ← bytesF j "state"
  let ppid ← natF j "ppid"
  let start ← natF j "start"
  let pre ← listF asBytes j "pre"
  let post ← listF asBytes j "post"
  let data := Spec.renderStat pid comm state ppid pre start post
  return jObj [("render", jBytes data),
    ("model", jObj [("map", jPOut (mapEntry scfg data)), ("ppid", jPOut (statPpid scfg data)),
                    ("ctime", jPOut (statCtime scfg data))]),
    ("spec", jObj [("map", jPOut (.ok ppid)), ("ppid", jPOut (.ok ppid)), ("ctime", jPOut (.ok start))])]

/-! ### the richer world -/

def parseSt (j : Json) : R St := do
  let s ← asStr j
  if s == "R" then pure .run else if s == "Z" then pure .zombie else if s == "X" then pure .denied
  else .error s!"unknown state {s}"

def parseXRow (j : Json) : R XRow := do
  match j.getArr? with
  | .ok #[a, b, c, d] => do
    let a ← asNat a
    let b ← asNat b
    let c ← asNat c
    let d ← parseSt d
    pure ⟨a, b, c, d⟩
  | _ => .error "xrow must be [pid, ppid, start, state]"

def parseXTable (j : Json) : R XTable := asList parseXRow j

/-- a listed PID whose stat file is already gone (the process exited after `pids()` saw its directory): state
    "G". It stays in the LISTING and is absent from the WORLD. → (listing, table without the G rows) -/
def parseListed (j : Json) : R (List Nat × XTable) := do
  match j.getArr? with
  | .ok rows => do
    let mut L : List Nat := []
    let mut T : XTable := []
    for r in rows.toList do
      match r.getArr? with
      | .ok #[a, b, c, d] =>
        let a ← asNat a
        let st ← asStr d
        L := L ++ [a]
        if st == "G" then
          let _ ← asNat b
          let _ ← asNat c
          pure ()
        else
          let x ← parseXRow r
          T := T ++ [x]
      | _ => throw "xrow must be [pid, ppid, start, state]"
    pure (L, T)
  | _ => .error "table must be an array"

/-- only the world of a table (its "G" rows are absent from it) -/
def parseWorldT (j : Json) : R XTable := do
  let r ← parseListed j
  pure r.2

/-- what the identity check would read if every stat file could be opened: the table knows the start time
    of the process that owns the PID even when its stat file is unreadable -/
def truthRead (T : XTable) : XWorld :=
  XTable.read (T.map fun r => { r with st := (match r.st with | .denied => .run | s => s) })

/-- a step as the code sees it, and the same step with the identity check reading the truth -/
def parseStep (j : Json) : R (PStep × PStep) := do
  match j.getArr? with
  | .ok #[a, b, c] => do
    let (la, a) ← parseListed a
    let (_, b) ← parseListed b
    let (_, c) ← parseListed c
    pure (⟨la, a.read, b.read, c.read⟩, ⟨la, truthRead a, b.read, c.read⟩)
  | _ => .error "step must be [ti, to, tp]"

def handleDynCore (j : Json) : R Json := do
  let call ← strF j "call"
  let pid ← natF j "pid"
  let mk ← field j "mk" >>= parseWorldT
  let lowest ← optF asNat j "lowest"
  let (l0, t0) ← field j "t0" >>= parseListed
  let t1o ← optF parseWorldT j "t1"
  let t1 := t1o.getD t0
  let stepsO ← optF (asList parseStep) j "steps"
  let steps := stepsO.getD []
  let osJ ← field j "oneshot"
  let memoO ← optF parseWorldT j "statmemo"
  let me0 ← (match mk.read pid with
    | .ok _ s => pure (⟨pid, s, false, false⟩ : Caller)
    | _ => .error s!"pid {pid} is not readable in mk")
  -- oneshot: an earlier `p.ppid()` inside the block
  let (me, os) : Caller × Oneshot ← (match osJ with
    | Json.null => pure (me0, none)
    | Json.str "fresh" => pure (me0, some none)
    | other => do
      let tp ← parseWorldT other
      let r := ppidXR rcfg cfg (stepOfX tp) me0 (some none)
      pure (r.1, r.2.1))
  let cached : Bool := match os with | some (some _) => true | _ => false
  let ps : Ps := ⟨lowest⟩
  let dflt : PStep × PStep := match steps.getLast? with
    | some s => s
    | none => ({ stepOfX t0 with listing := l0 }, { stepOfX t0 with listing := l0, wi := truthRead t0 })
  -- inside oneshot(), another stat-based method filled the memoised stat file on table `statmemo`
  let memo (s : PStep) : PStep := match memoO with
    | some tm => s.withStatMemo tm.read
    | none => s
  let W : Nat → PStep := fun i =>
    let s := (steps.getD i dflt).1
    if i == 0 then memo { s with listing := l0 } else s
  -- the same worlds, except that every identity check reads the truth (an unreadable stat file does not
  -- hide whether the PID still belongs to the same incarnation)
  let Wt : Nat → PStep := fun i =>
    let s := (steps.getD i dflt).2
    if i == 0 then memo { s with listing := l0 } else s
  let flagsDead : Bool := me.gone || me.reused
  let nspJ := jExc "NoSuchProcess" (some pid)
  if call == "children" || call == "children_rec" then
    let recursive := call == "children_rec"
    let L := l0
    let w0 := t0.read
    let wl := t1.read
    let m := (childrenXR rcfg xcfg me recursive L w0 wl).2
    let links := Spec.linksOf L w0
    let look := lookOfW wl
    let alive : Bool := match w0 pid with
      | .ok _ s => s == me.ctime
      | _ => false
    let ownDenied : Bool := w0 pid == .denied
    -- an unreadable caller: the table knows whether the PID still belongs to the same incarnation
    let ownRecycled : Bool := match List.find? (fun r => r.pid == pid) t0 with
      | some r => r.start != me.ctime
      | none => false
    let stays : Bool := links.all fun e => wl e.1 != .denied
    let altDenied : List Nat := (links.filter fun e => wl e.1 == .denied).map (·.1)
    let sat := Spec.descSat links look me.ctime pid
    let isClosed := Spec.closed links look me.ctime pid sat
    let sp : Json := if flagsDead then nspJ
      else if ownDenied && ownRecycled then nspJ
      else if ownDenied then Json.null
      else if !alive then nspJ
      else if recursive then jObj (("kind", "ok") :: jProcs look (Spec.descList links look me.ctime pid))
      else jObj (("kind", "ok") :: jProcs look (Spec.childList links look me.ctime pid))
    let order : Json := match m with
      | .ok l => jList jNat l
      | _ => Json.null
    return jObj [("model", jXOut (jProcs look) m), ("order", order), ("spec", sp), ("closed", Json.bool (isClosed || !recursive)),
      ("alt_denied", jList jNat (if stays then [] else sortNat altDenied)), ("cached", Json.bool cached)]
  else if call == "parent" || call == "parents" then
    match lowestPidX ps (W 0).listing with
    | (_, none) =>
      return jObj [("model", jExc "IndexError" none), ("spec", Json.null), ("closed", Json.bool true),
        ("cached", Json.bool cached)]
    | (_, some low) =>
      let silent (o : XOut (List Row)) : Bool := match o with
        | .denied _ => true
        | _ => false
      if call == "parent" then
        let m := (parentXR rcfg cfg ps (W 0) me os).2.2.2
        -- one reading of the statement: the value in the worlds as the code sees them (`spv`) and with every
        -- identity check reading the truth (`spt`); silent where an identity check cannot tell (own stat
        -- unreadable, same incarnation underneath) and about WHICH exception an unreadable stat file produces
        let rd (spv spt : Spec.PRes) : Json :=
          if cached then Json.null
          else if flagsDead then nspJ
          else if spv != spt then Json.null
          else match spv with
            | .none => jObj (("kind", "ok") :: jParent none)
            | .some q => jObj (("kind", "ok") :: jParent (some q))
            | .nsp p => jExc "NoSuchProcess" (some p)
            | .denied _ => Json.null
        -- literal / with the lowest-PID stop after the identity check / with the stop first (see handleTree)
        let sp := rd (Spec.parentLitW (W 0) pid me.ctime) (Spec.parentLitW (Wt 0) pid me.ctime)
        let ss := rd (Spec.parentOfW true (W 0) low pid me.ctime) (Spec.parentOfW true (Wt 0) low pid me.ctime)
        let sf := if cached then Json.null else if pid == low then jObj (("kind", "ok") :: jParent none) else ss
        return jObj [("model", jXOut jParent m), ("spec", sp), ("spec_stop", ss), ("spec_found", sf),
          ("closed", Json.bool true), ("cached", Json.bool cached)]
      else
        let fuel := 4096 + 2
        let m := (parentsXR rcfg cfg fuel ps W me os).2
        let rd (spv spt : XOut (List Row)) : Json :=
          if cached then Json.null
          else if flagsDead then nspJ
          else if (jXOut jChain spv).compress != (jXOut jChain spt).compress then Json.null
          else if silent spv then Json.null
          else jXOut jChain spv
        let sp := rd (Spec.chainLitDyn W fuel 0 [pid] pid me.ctime []) (Spec.chainLitDyn Wt fuel 0 [pid] pid me.ctime [])
        let ss := rd (Spec.chainDyn true W low fuel 0 [pid] pid me.ctime [])
                     (Spec.chainDyn true Wt low fuel 0 [pid] pid me.ctime [])
        let sf := if cached then Json.null else if pid == low then jObj (("kind", "ok") :: jChain []) else
          rd (Spec.chainDyn false W low fuel 0 [pid] pid me.ctime []) (Spec.chainDyn false Wt low fuel 0 [pid] pid me.ctime [])
        return jObj [("model", jXOut jChain m), ("spec", sp), ("spec_stop", ss), ("spec_found", sf),
          ("closed", Json.bool true), ("cached", Json.bool cached)]
  else .error s!"unknown call {call}"

/-- the richer world; the object itself is built through the range gate: a refused PID cannot be opened at all -/
def handleDyn (j : Json) : R Json := do
  let r ← handleDynCore j
  let pid ← natF j "pid"
  if pid < rcfg.limit then return r
  else return r.setObjVal! "model" (jCtorRefused pid)

def handle (_ : Unit) (j : Json) : R (Unit × Json) := do
  let op ← strF j "op"
  if op == "tree" then
    let r ← handleTree j
    return ((), r)
  else if op == "stat" then
    let r ← handleStat j
    return ((), r)
  else if op == "dyn" then
    let r ← handleDyn j
    return ((), r)
  else .error s!"unknown op {op}"

def main : IO Unit := Proto.run () (total handle)
