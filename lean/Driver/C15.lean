/- Driver/C15.lean — line-protocol driver for the C15 model (see Base/Proto.lean).

   ops (one JSON object per line):
     cfg                                   → the constants the model runs with
     causes                                → [[status, value] …] for every valid Cause (Spec)
     decode  {lo, hi}                      → model `decode` of every status word in [lo, hi)
     wait    {env, pid, timeout, start, fuel, nwait0?, obs?}        `_psposix.wait_pid`
     pwait   {env, pid, fuel, cached0?, calls:[{timeout, at, obs?}]} `Process.wait`, several calls
     wprocs  {procs:[{pid, env, prewait?}], list, timeout, start, hasCb, flat, fuel, obs?}
   Every answer is {"model": …, "spec": …}: `spec` lists the Spec clauses violated by the model's
   observation and (when `obs` is supplied) by the implementation's observation. -/
import PsutilModel.Base.Proto
import PsutilModel.Model.C15Gen
import PsutilModel.Spec.C15
open Lean Psutil Psutil.Proto Psutil.C15

def asRat (j : Json) : R Rat :=
  match j.getArr? with
  | .ok #[n, d] => do
    let n ← asInt n
    let d ← asNat d
    if d = 0 then .error "rational with denominator 0" else pure ((n : Rat) / (d : Rat))
  | _ => .error s!"not a rational [num, den]: {j.compress}"

def ratF (j : Json) (k : String) : R Rat := field j k >>= asRat
def optRatF (j : Json) (k : String) : R (Option Rat) := optF asRat j k

def asEnv (j : Json) : R Env := do
  let k ← strF j "kind"
  let kind ← (
    if k == "child" then do
      let st ← natF j "status"
      pure (Kind.child st)
    else if k == "nonchild" then pure Kind.nonChild
    else if k == "never" then pure Kind.neverExisted
    else .error s!"bad kind {k}")
  let exitAt ← optRatF j "exitAt"
  let pat ← optF (asList asBool) j "eintr"
  let pat := pat.getD []
  -- calls beyond the listed ones are interrupted iff `eintrTail`
  let tail := (← optF asBool j "eintrTail").getD false
  pure { kind := kind, exitAt := exitAt, eintr := fun n => pat.getD n tail }

def eintrFree (j : Json) : R Bool := do
  let pat ← optF (asList asBool) j "eintr"
  let tail := (← optF asBool j "eintrTail").getD false
  pure (!(pat.getD []).any id && !tail)

def jOutcome : Outcome → Json
  | .code c => jObj [("kind", "code"), ("v", jInt c)]
  | .none => jObj [("kind", "none")]
  | .timeout s p => jObj [("kind", "timeout"), ("seconds", jRat s), ("pid", jNat p)]
  | .valueError => jObj [("kind", "exc"), ("exc", "ValueError")]
  | .hang => jObj [("kind", "hang")]
  | .outOfFuel => jObj [("kind", "fuel")]

def asOutcome (j : Json) : R Outcome := do
  let k ← strF j "kind"
  if k == "code" then return .code (← intF j "v")
  else if k == "none" then return .none
  else if k == "timeout" then return .timeout (← ratF j "seconds") (← natF j "pid")
  else if k == "exc" then
    let e ← strF j "exc"
    if e == "ValueError" then return .valueError else .error s!"exception {e} is not an Outcome"
  else if k == "hang" then return .hang
  else if k == "fuel" then return .outOfFuel
  else .error s!"bad outcome kind {k}"

def asObs (j : Json) : R Spec.Obs := do
  pure { out := ← field j "out" >>= asOutcome, ret := ← ratF j "ret",
         sleeps := ← listF asRat j "sleeps" }

def jStrs (l : List String) : Json := jList Json.str l

def jVal : Option Int → Json
  | some c => jObj [("v", jInt c)]
  | none => jObj [("v", Json.null)]

def asVal (j : Json) : R (Option Int) := do
  let v ← field j "v"
  if v.isNull then pure none else (asInt v).map some

def jOptVal : Option (Option Int) → Json
  | none => Json.null
  | some v => jVal v

/-- spec part of an answer: violations of the model's own observation, and of the implementation's -/
def specPart (modelV : List String) (implV : Option (List String)) : Json :=
  jObj [("model_violations", jStrs modelV), ("impl_violations", jOpt jStrs implV)]

def handleWait (j : Json) : R Json := do
  let envJ ← field j "env"
  let env ← asEnv envJ
  let clean0 ← eintrFree envJ
  let pid ← natF j "pid"
  let timeout ← optRatF j "timeout"
  let start ← ratF j "start"
  let fuel ← natF j "fuel"
  let nwait0 := (← optF asNat j "nwait0").getD 0
  let (o, s) := waitPid cfg env pid timeout fuel start nwait0
  let ask : Spec.Ask := ⟨env, pid, timeout, start⟩
  let clean := clean0 && decide (0 < pid) && !(negative timeout)
  let mobs : Spec.Obs := ⟨o, s.now, s.sleeps⟩
  let implV ← (optF asObs j "obs")
  let implV := implV.map fun ob => Spec.violations ask ob clean
  return jObj [
    ("model", jObj [("out", jOutcome o), ("ret", jRat s.now), ("sleeps", jList jRat s.sleeps),
                    ("nwait", jNat (s.nWait - nwait0))]),
    ("spec", specPart (Spec.violations ask mobs clean) implV)]

structure PCall where
  timeout : Option Rat
  at_ : Rat
  obs : Option Spec.Obs
  osCalls : Nat

def asPCall (j : Json) : R PCall := do
  pure { timeout := ← optRatF j "timeout", at_ := ← ratF j "at", obs := ← optF asObs j "obs",
         osCalls := (← optF asNat j "oscalls").getD 0 }

/-- run the calls in sequence on one object; per call: model obs, model/impl violations -/
def runPCalls (env : Env) (clean0 : Bool) (fuel : Nat) :
    List PCall → PObj → Option Outcome → Option Outcome → List Json → List Json
  | [], _, _, _, acc => acc.reverse
  | c :: cs, p, firstM, firstI, acc =>
    let r := procWait cfg env c.timeout fuel c.at_ p
    let ask : Spec.Ask := ⟨env, p.pid, c.timeout, c.at_⟩
    let clean := clean0 && decide (0 < p.pid) && !(negative c.timeout)
    let mobs : Spec.Obs := ⟨r.out, r.now, r.sleeps⟩
    -- after a first result the Ask of a later call is answered from the cache: only `cachedOk`
    -- and the validation clause apply
    let later (first : Option Outcome) (ob : Spec.Obs) (osCalls : Nat) : List String :=
      match first with
      | some f =>
        (if Spec.negativeIsValueError ask ob then [] else ["negativeIsValueError"]) ++
        (if negative c.timeout then [] else
          if Spec.cachedOk f ob c.at_ osCalls then [] else ["cached"])
      | none => Spec.violations ask ob clean
    let mV := later firstM mobs (r.obj.nWait - p.nWait)
    let iV := c.obs.map fun ob => later firstI ob c.osCalls
    let isRes (o : Outcome) : Bool := match o with | .code _ | .none => true | _ => false
    let firstM' := match firstM with | some f => some f | none => if isRes r.out then some r.out else none
    let firstI' := match firstI, c.obs with
      | some f, _ => some f
      | none, some ob => if isRes ob.out then some ob.out else none
      | none, none => none
    let ans := jObj [
      ("model", jObj [("out", jOutcome r.out), ("ret", jRat r.now), ("sleeps", jList jRat r.sleeps),
                      ("nwait", jNat (r.obj.nWait - p.nWait))]),
      ("spec", specPart mV iV)]
    runPCalls env clean0 fuel cs r.obj firstM' firstI' (ans :: acc)

def handlePWait (j : Json) : R Json := do
  let envJ ← field j "env"
  let env ← asEnv envJ
  let clean0 ← eintrFree envJ
  let pid ← natF j "pid"
  let fuel ← natF j "fuel"
  let cached0 ← optF asVal j "cached0"
  let calls ← listF asPCall j "calls"
  let p : PObj := ⟨pid, cached0, 0, none⟩
  let first := cached0.map Outcome.ofValue
  let outs := runPCalls env clean0 fuel calls p first first []
  return jObj [("model", Json.arr (outs.map fun o => (o.getObjValD "model")).toArray),
               ("spec", Json.arr (outs.map fun o => (o.getObjValD "spec")).toArray)]

structure PSpec where
  pid : Nat
  env : Env
  prewait : Bool        -- `proc.wait(0)` was called on the object just before `wait_procs`

def asPSpec (j : Json) : R PSpec := do
  pure { pid := ← natF j "pid", env := ← field j "env" >>= asEnv,
         prewait := (← optF asBool j "prewait").getD false }

/-- iteration order of a pass that starts after `k` calls of `proc.wait`: the order in which the
    implementation was seen to visit (flat list of all its calls), completed with the rest -/
def orderOf (flat : List Nat) (k : Nat) (alive : List Nat) : List Nat :=
  let pre := ((flat.drop k).filter fun p => alive.contains p).eraseDups
  pre ++ alive.filter fun p => !(pre.contains p)

def asWPObs (j : Json) : R Spec.WPObs := do
  let gone ← listF asNat j "gone"
  let alive ← listF asNat j "alive"
  let rcs ← listF (fun e => do
      match e.getArr? with
      | .ok #[p, v] => do
        let p ← asNat p
        let v ← asOpt asVal v
        pure (p, v)
      | _ => .error "returncode entry must be [pid, null|{v}]") j "returncodes"
  let cb ← listF asNat j "cbLog"
  let ret ← ratF j "ret"
  pure { gone := gone, alive := alive, returncode := fun p => (rcs.lookup p).getD none,
         cbLog := cb, ret := ret }

def handleWProcs (j : Json) : R Json := do
  let ps ← listF asPSpec j "procs"
  let lst ← listF asNat j "list"
  let timeout ← optRatF j "timeout"
  let start ← ratF j "start"
  let hasCb ← boolF j "hasCb"
  let flat ← listF asNat j "flat"
  let fuel ← natF j "fuel"
  let dflt : Env := ⟨.neverExisted, none, fun _ => false⟩
  let envOf : Nat → Env := fun pid => match ps.find? (·.pid == pid) with
    | some p => p.env
    | none => dflt
  let objs : Nat → PObj := fun pid => match ps.find? (·.pid == pid) with
    | some p =>
      if p.prewait then (procWait cfg p.env (some 0) fuel start ⟨pid, none, 0, none⟩).obj
      else ⟨pid, none, 0, none⟩
    | none => ⟨pid, none, 0, none⟩
  let w0 : WP := ⟨start, objs, [], [], [], []⟩
  let ask : Spec.WPAsk := ⟨envOf, lst, timeout, start, hasCb⟩
  let implV ← optF asWPObs j "obs"
  let implV := implV.map fun ob => Spec.wpViolations ask ob
  match waitProcs cfg envOf lst timeout hasCb (orderOf flat) fuel w0 with
  | .error o =>
    return jObj [("model", jObj [("kind", "raised"), ("out", jOutcome o)]),
                 ("spec", specPart [] implV)]
  | .ok (w, alive) =>
    let pids := dedup lst
    let mobs : Spec.WPObs := ⟨w.gone, alive, fun p => (w.objs p).returncode, w.cbLog, w.now⟩
    return jObj [
      ("model", jObj [("kind", "ok"), ("gone", jList jNat w.gone), ("alive", jList jNat alive),
        ("returncodes", jList (fun p => Json.arr #[jNat p, jOptVal (w.objs p).returncode]) pids),
        ("cbLog", jList jNat w.cbLog), ("ret", jRat w.now), ("sleeps", jList jRat w.sleeps),
        ("calls", jList (fun c => Json.arr #[jNat c.1, jRat c.2]) w.calls)]),
      ("spec", specPart (Spec.wpViolations ask mobs) implV)]

def handle (_ : Unit) (j : Json) : R (Unit × Json) := do
  let op ← strF j "op"
  if op == "cfg" then
    return ((), jObj [("i0", jRat cfg.i0), ("factor", jNat cfg.factor), ("cap", jRat cfg.cap),
      ("checkBeforeSleep", Json.bool cfg.checkBeforeSleep), ("deadlineGe", Json.bool cfg.deadlineGe),
      ("validateNonNeg", Json.bool cfg.validateNonNeg), ("sliceN", jNat cfg.sliceN)])
  else if op == "causes" then
    return ((), jList (fun c => Json.arr #[jNat c.status, jInt c.value]) Spec.allCauses)
  else if op == "decode" then
    let lo ← natF j "lo"
    let hi ← natF j "hi"
    return ((), jList (fun i => jOutcome (decode (lo + i))) (List.range (hi - lo)))
  else if op == "wait" then return ((), ← handleWait j)
  else if op == "pwait" then return ((), ← handlePWait j)
  else if op == "wprocs" then return ((), ← handleWProcs j)
  else .error s!"unknown op {op}"

def main : IO Unit := Proto.run () (total handle)
