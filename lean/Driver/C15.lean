/- Driver/C15.lean — line-protocol driver for the C15 model (see Base/Proto.lean).

   ops (one JSON object per line):
     cfg                                   → the constants the model runs with
     causes                                → [[status, value] …] for every valid Cause (Spec)
     decode  {lo, hi}                      → model `decode` of every status word in [lo, hi)
     wait    {env, pid, timeout, start, fuel, nwait0?, obs?}        `_psposix.wait_pid`; pid is an INTEGER (third
             round: −1 etc. are asked about; model = `waitPidI`); spec also carries model_full / impl_full =
             clauses violated at FULL strength over the stated quantifier (neverExistedAtOnce under EINTR)
     pwait   {env, pid, fuel, cached0?, calls:[{timeout, at, obs?}]} `Process.wait`, several calls
     wprocs  {procs:[{pid, env, prewait?}], list, timeout, start, hasCb, cb?, flat, fuel, obs?}
             cb = "none" | "callable" | "bad" (overrides hasCb): the argument checks in front of the loops
     popen   {env, pid, fuel, calls:[{timeout, at, ext?, obs?, oscalls?, rc?}]} `psutil.Popen.wait`, several
             calls on one object; ext = returncode stored by subprocess's own poll() just before the call;
             rc = {"v": returncode after the call} as observed on the implementation
     waitc   {env, pid, timeout, start, fuel, costs:[rat…], obs?}  `wait_pid` with system calls that take time:
             the k-th system call takes costs[k] (0 beyond the list); Spec clauses with 40 ms + 5·max(costs)
     wprocs (second extension): procs[i].popen = the object is a psutil.Popen, procs[i].rc0 = {"v": its
             subprocess returncode before the call}; oids = object identity of each element of `list`;
             hashable = false: some element of the list cannot be hashed
   (seeded round 5) every `env` may carry `view = {hideAt, showAt?}`: the procfs tree does not list the process
             during [hideAt, showAt); wait / pwait / popen run `waitPidV` / `procWaitV` / `popenWaitV` with the
             probe the translator found (`cfg.probeDirect` / `cfg.probe`); spec adds noResultWhileHidden /
             noGoneWhileHidden. The wait_procs model is view-free (`C15_check_gone_any_view`).
   (seeded round 5, C15-8) every line may carry `wall = {base, steps:[[at, delta] …]}`: the WALL clock reads
             steady time + base + the sum of the steps made so far; wait / pwait / popen / wprocs run `waitPidK` /
             `procWaitK` / `popenWaitK` / `waitProcsFrontK` with every deadline computation on the clock the translator
             found (`cfg.stopClock`, `cfg.checkClock`, `cfg.procsDeadlineClock`, `cfg.procsSliceClock`); spec adds
             timeoutHonoured (over before start + timeout + 40 ms of STEADY time, whatever way the call ends).
   Every answer is {"model": …, "spec": …}: `spec` lists the Spec clauses violated by the model's
   observation and (when `obs` is supplied) by the implementation's observation. -/
import PsutilModel.Base.Proto
import PsutilModel.Model.C15Gen
import PsutilModel.Model.C15R2
import PsutilModel.Model.C15R3
import PsutilModel.Model.C15Probe
import PsutilModel.Model.C15Clock
import PsutilModel.Spec.C15
open Lean Psutil Psutil.Proto Psutil.C15

def asRat (j : Json) : R Rat :=
  match j.getArr? with
  | .ok #[n, d] => do
    let n ← asInt n
    let d ← asNat d
    if d = 0 then .error "rational with denominator 0" else pure ((n : Rat) / (d : Rat))
  | _ => .error s!"not a rational [num, den]: {j.compress}"

def ratF (j : Json) (k : String) : R Rat := field j k >>= asRat
def optRatF (j : Json) (k : String) : R (Option Rat) := optF asRat j k

def asEnv (j : Json) : R Env := do
  let k ← strF j "kind"
  let kind ← (
    if k == "child" then do
      let st ← natF j "status"
      pure (Kind.child st)
    else if k == "nonchild" then pure Kind.nonChild
    else if k == "never" then pure Kind.neverExisted
    else .error s!"bad kind {k}")
  let exitAt ← optRatF j "exitAt"
  let pat ← optF (asList asBool) j "eintr"
  let pat := pat.getD []
  -- calls beyond the listed ones are interrupted iff `eintrTail`
  let tail := (← optF asBool j "eintrTail").getD false
  pure { kind := kind, exitAt := exitAt, eintr := fun n => pat.getD n tail }

/-- (seeded round 5) what the procfs tree shows of the process: `env.view = {hideAt, showAt?}` = not listed
    during [hideAt, showAt); absent = listed for as long as the process exists -/
def asView (j : Json) : R View := do
  match ← optF pure j "view" with
  | none => pure View.full
  | some v =>
    if v.isNull then pure View.full else
    let h ← ratF v "hideAt"
    let s ← optRatF v "showAt"
    pure (View.window h s)

/-- (seeded round 5, C15-8) the wall clock of the case: `wall = {base, steps}`; absent = a wall clock that agrees
    with the steady clock and is never stepped -/
def asWall (j : Json) : R Wall := do
  match ← optF pure j "wall" with
  | none => pure (Wall.stepped 0 [])
  | some v =>
    if v.isNull then pure (Wall.stepped 0 []) else
    let b ← ratF v "base"
    let steps ← listF (fun e => do
        match e.getArr? with
        | .ok #[a, d] => do
          let a ← asRat a
          let d ← asRat d
          pure (a, d)
        | _ => .error "wall step must be [at, delta]") v "steps"
    pure (Wall.stepped b steps)

def eintrFree (j : Json) : R Bool := do
  let pat ← optF (asList asBool) j "eintr"
  let tail := (← optF asBool j "eintrTail").getD false
  pure (!(pat.getD []).any id && !tail)

def jOutcome : Outcome → Json
  | .code c => jObj [("kind", "code"), ("v", jInt c)]
  | .none => jObj [("kind", "none")]
  | .timeout s p => jObj [("kind", "timeout"), ("seconds", jRat s), ("pid", jNat p)]
  | .valueError => jObj [("kind", "exc"), ("exc", "ValueError")]
  | .hang => jObj [("kind", "hang")]
  | .outOfFuel => jObj [("kind", "fuel")]

def asOutcome (j : Json) : R Outcome := do
  let k ← strF j "kind"
  if k == "code" then return .code (← intF j "v")
  else if k == "none" then return .none
  else if k == "timeout" then return .timeout (← ratF j "seconds") (← natF j "pid")
  else if k == "exc" then
    let e ← strF j "exc"
    if e == "ValueError" then return .valueError else .error s!"exception {e} is not an Outcome"
  else if k == "hang" then return .hang
  else if k == "fuel" then return .outOfFuel
  else .error s!"bad outcome kind {k}"

def asObs (j : Json) : R Spec.Obs := do
  pure { out := ← field j "out" >>= asOutcome, ret := ← ratF j "ret",
         sleeps := ← listF asRat j "sleeps" }

def jStrs (l : List String) : Json := jList Json.str l

def jVal : Option Int → Json
  | some c => jObj [("v", jInt c)]
  | none => jObj [("v", Json.null)]

def asVal (j : Json) : R (Option Int) := do
  let v ← field j "v"
  if v.isNull then pure none else (asInt v).map some

def jOptVal : Option (Option Int) → Json
  | none => Json.null
  | some v => jVal v

/-- spec part of an answer: violations of the model's own observation, and of the implementation's -/
def specPart (modelV : List String) (implV : Option (List String)) : Json :=
  jObj [("model_violations", jStrs modelV), ("impl_violations", jOpt jStrs implV)]

def handleWait (j : Json) : R Json := do
  let envJ ← field j "env"
  let env ← asEnv envJ
  let clean0 ← eintrFree envJ
  let view ← asView envJ
  let wall ← asWall j
  let pidI ← intF j "pid"
  let pid := pidI.toNat
  let timeout ← optRatF j "timeout"
  let start ← ratF j "start"
  let fuel ← natF j "fuel"
  let nwait0 := (← optF asNat j "nwait0").getD 0
  -- the integer-pid model: the pid test is the one the translator found (facts pidRejects*)
  -- (seeded round 5) non-children are polled with the probe the translator found, under the case's procfs view
  -- (C15-8) every deadline computation reads the clock the translator found, under the case's wall clock
  let (o, s) := waitPidK cfg cfg.probeDirect env view cfg.stopClock cfg.checkClock wall pidI timeout fuel start nwait0
  let ask : Spec.Ask := ⟨env, pid, timeout, start⟩
  let clean := clean0 && decide (0 < pidI) && !(negative timeout)
  let valid := decide (0 < pidI) && !(negative timeout)
  let mobs : Spec.Obs := ⟨o, s.now, s.sleeps⟩
  let judge (ob : Spec.Obs) : List String :=
    (if Spec.nonPositivePidRefused pidI start ob then [] else ["nonPositivePidRefused"]) ++
    (if pidI < 0 then [] else Spec.violations ask ob clean ++ Spec.extraViolations ask ob ++ Spec.viewViolations ask view ob ++
      Spec.clockViolations ask ob)
  -- clauses at FULL strength over the stated quantifier (EINTR on any call): reported separately
  let full (ob : Spec.Obs) : List String :=
    if pidI < 0 then [] else
    (if Spec.neverExistedAtOnce ask ob valid then [] else ["neverExistedAtOnce"])
  let implO ← (optF asObs j "obs")
  return jObj [
    ("model", jObj [("out", jOutcome o), ("ret", jRat s.now), ("sleeps", jList jRat s.sleeps),
                    ("nwait", jNat (s.nWait - nwait0))]),
    ("spec", jObj [("model_violations", jStrs (judge mobs)), ("impl_violations", jOpt jStrs (implO.map judge)),
                   ("model_full", jStrs (full mobs)), ("impl_full", jOpt jStrs (implO.map full))])]

def handleWaitC (j : Json) : R Json := do
  let envJ ← field j "env"
  let env ← asEnv envJ
  let clean0 ← eintrFree envJ
  let pid ← natF j "pid"
  let timeout ← optRatF j "timeout"
  let start ← ratF j "start"
  let fuel ← natF j "fuel"
  let costs ← listF asRat j "costs"
  let cost : Nat → Rat := fun k => costs.getD k 0
  let δ := costs.foldl (fun a b => if a ≤ b then b else a) 0
  let (o, s) := waitPidC cfg cost env pid timeout fuel start 0 0
  let ask : Spec.Ask := ⟨env, pid, timeout, start⟩
  let clean := clean0 && decide (0 < pid) && !(negative timeout)
  let mobs : Spec.Obs := ⟨o, s.now, s.sleeps⟩
  let implV ← (optF asObs j "obs")
  let implV := implV.map fun ob => Spec.violationsC ask ob δ clean
  return jObj [
    ("model", jObj [("out", jOutcome o), ("ret", jRat s.now), ("sleeps", jList jRat s.sleeps),
                    ("nwait", jNat s.nWait), ("nsys", jNat s.nSys)]),
    ("spec", jObj [("model_violations", jStrs (Spec.violationsC ask mobs δ clean)),
                   ("impl_violations", jOpt jStrs implV), ("delta", jRat δ)])]

structure PCall where
  timeout : Option Rat
  at_ : Rat
  obs : Option Spec.Obs
  osCalls : Nat

def asPCall (j : Json) : R PCall := do
  pure { timeout := ← optRatF j "timeout", at_ := ← ratF j "at", obs := ← optF asObs j "obs",
         osCalls := (← optF asNat j "oscalls").getD 0 }

/-- run the calls in sequence on one object; per call: model obs, model/impl violations -/
def runPCalls (env : Env) (view : View) (wall : Wall) (clean0 : Bool) (fuel : Nat) :
    List PCall → PObj → Option Outcome → Option Outcome → List Json → List Json
  | [], _, _, _, acc => acc.reverse
  | c :: cs, p, firstM, firstI, acc =>
    let r := procWaitK cfg cfg.probe env view cfg.stopClock cfg.checkClock wall c.timeout fuel c.at_ p
    let ask : Spec.Ask := ⟨env, p.pid, c.timeout, c.at_⟩
    let clean := clean0 && decide (0 < p.pid) && !(negative c.timeout)
    let mobs : Spec.Obs := ⟨r.out, r.now, r.sleeps⟩
    -- after a first result the Ask of a later call is answered from the cache: only `cachedOk`
    -- and the validation clause apply
    let later (first : Option Outcome) (ob : Spec.Obs) (osCalls : Nat) : List String :=
      match first with
      | some f =>
        (if Spec.negativeIsValueError ask ob then [] else ["negativeIsValueError"]) ++
        (if negative c.timeout then [] else
          if Spec.cachedOk f ob c.at_ osCalls then [] else ["cached"])
      | none => Spec.violations ask ob clean ++ Spec.extraViolations ask ob ++ Spec.viewViolations ask view ob ++
          Spec.clockViolations ask ob
    let mV := later firstM mobs (r.obj.nWait - p.nWait)
    let iV := c.obs.map fun ob => later firstI ob c.osCalls
    let isRes (o : Outcome) : Bool := match o with | .code _ | .none => true | _ => false
    let firstM' := match firstM with | some f => some f | none => if isRes r.out then some r.out else none
    let firstI' := match firstI, c.obs with
      | some f, _ => some f
      | none, some ob => if isRes ob.out then some ob.out else none
      | none, none => none
    let ans := jObj [
      ("model", jObj [("out", jOutcome r.out), ("ret", jRat r.now), ("sleeps", jList jRat r.sleeps),
                      ("nwait", jNat (r.obj.nWait - p.nWait))]),
      ("spec", specPart mV iV)]
    runPCalls env view wall clean0 fuel cs r.obj firstM' firstI' (ans :: acc)

def handlePWait (j : Json) : R Json := do
  let envJ ← field j "env"
  let env ← asEnv envJ
  let clean0 ← eintrFree envJ
  let pid ← natF j "pid"
  let fuel ← natF j "fuel"
  let cached0 ← optF asVal j "cached0"
  let calls ← listF asPCall j "calls"
  let p : PObj := ⟨pid, cached0, 0, none⟩
  let first := cached0.map Outcome.ofValue
  let outs := runPCalls env (← asView envJ) (← asWall j) clean0 fuel calls p first first []
  return jObj [("model", Json.arr (outs.map fun o => (o.getObjValD "model")).toArray),
               ("spec", Json.arr (outs.map fun o => (o.getObjValD "spec")).toArray)]

structure QCall where
  timeout : Option Rat
  at_ : Rat
  ext : Option Int
  obs : Option Spec.Obs
  osCalls : Nat
  rc : Option (Option Int)

def asQCall (j : Json) : R QCall := do
  pure { timeout := ← optRatF j "timeout", at_ := ← ratF j "at", ext := ← optF asInt j "ext",
         obs := ← optF asObs j "obs", osCalls := (← optF asNat j "oscalls").getD 0,
         rc := ← optF asVal j "rc" }

/-- `Popen.wait` calls in sequence on one object. `storedI` = the returncode the IMPLEMENTATION's
    object was last seen to hold, `firstM/firstI` = the first result (None) a call gave. -/
def runQCalls (env : Env) (view : View) (wall : Wall) (clean0 : Bool) (fuel : Nat) :
    List QCall → PopenObj → Option Int → Option Outcome → Option Outcome → List Json → List Json
  | [], _, _, _, _, acc => acc.reverse
  | c :: cs, q, storedI, firstM, firstI, acc =>
    let q0 := match c.ext with | some v => q.extSet v | none => q
    let storedI0 := match c.ext with | some v => some v | none => storedI
    let r := popenWaitK cfg cfg.probe env view cfg.stopClock cfg.checkClock wall c.timeout fuel c.at_ q0
    let ask : Spec.Ask := ⟨env, q0.proc.pid, c.timeout, c.at_⟩
    let clean := clean0 && decide (0 < q0.proc.pid) && !(negative c.timeout)
    let mobs : Spec.Obs := ⟨r.out, r.now, r.sleeps⟩
    let judge (stored : Option Int) (first : Option Outcome) (ob : Spec.Obs) (osCalls : Nat)
        (rcAfter : Option (Option Int)) : List String :=
      let negV := if Spec.negativeIsValueError ask ob then [] else ["negativeIsValueError"]
      match stored with
      | some v =>
        negV ++ (if negative c.timeout then [] else
                  if Spec.popenCachedOk v ob c.at_ osCalls then [] else ["popenCached"]) ++
        (match rcAfter with
         | some a => if a = some v then [] else ["popenStores"]
         | none => [])
      | none =>
        (match first with
         | some f => negV ++ (if negative c.timeout then [] else
                               if Spec.cachedOk f ob c.at_ osCalls then [] else ["cached"])
         | none => Spec.violations ask ob clean ++ Spec.extraViolations ask ob ++ Spec.viewViolations ask view ob ++
             Spec.clockViolations ask ob) ++
        (match rcAfter with
         | some a => if Spec.popenStoredOk ob a then [] else ["popenStores"]
         | none => [])
    let mV := judge q0.subRc firstM mobs (r.obj.proc.nWait - q0.proc.nWait) (some r.obj.subRc)
    let iV := c.obs.map fun ob => judge storedI0 firstI ob c.osCalls c.rc
    let isRes (o : Outcome) : Bool := match o with | .code _ | .none => true | _ => false
    let firstM' := match firstM with | some f => some f | none => if isRes r.out then some r.out else none
    let firstI' := match firstI, c.obs with
      | some f, _ => some f
      | none, some ob => if isRes ob.out then some ob.out else none
      | none, none => none
    let storedI' := match c.rc with | some a => a | none => storedI0
    let ans := jObj [
      ("model", jObj [("out", jOutcome r.out), ("ret", jRat r.now), ("sleeps", jList jRat r.sleeps),
                      ("nwait", jNat (r.obj.proc.nWait - q0.proc.nWait)), ("rc", jVal r.obj.subRc)]),
      ("spec", specPart mV iV)]
    runQCalls env view wall clean0 fuel cs r.obj storedI' firstM' firstI' (ans :: acc)

def handlePopen (j : Json) : R Json := do
  let envJ ← field j "env"
  let env ← asEnv envJ
  let clean0 ← eintrFree envJ
  let pid ← natF j "pid"
  let fuel ← natF j "fuel"
  let calls ← listF asQCall j "calls"
  let q : PopenObj := ⟨⟨pid, none, 0, none⟩, none⟩
  let outs := runQCalls env (← asView envJ) (← asWall j) clean0 fuel calls q none none none []
  return jObj [("model", Json.arr (outs.map fun o => (o.getObjValD "model")).toArray),
               ("spec", Json.arr (outs.map fun o => (o.getObjValD "spec")).toArray)]

structure PSpec where
  pid : Nat
  env : Env
  prewait : Bool        -- `proc.wait(0)` was called on the object just before `wait_procs`
  clean : Bool          -- no waitpid call on this PID is interrupted
  popen : Bool          -- the object is a `psutil.Popen`
  view : View           -- (seeded round 5) what the procfs tree shows of this process
  rc0 : Option Int      -- … whose subprocess returncode was this before the call (poll() of subprocess)

def asPSpec (j : Json) : R PSpec := do
  let envJ ← field j "env"
  pure { pid := ← natF j "pid", env := ← asEnv envJ,
         prewait := (← optF asBool j "prewait").getD false, clean := ← eintrFree envJ,
         view := ← asView envJ,
         popen := (← optF asBool j "popen").getD false,
         rc0 := ((← optF asVal j "rc0").getD none) }

def jWPErr : WPErr → Json
  | .typeError => jObj [("kind", "exc"), ("exc", "TypeError")]
  | .out o => jOutcome o

def jRefusal : Option Spec.WPRefusal → Json
  | none => Json.null
  | some .valueError => "ValueError"
  | some .typeError => "TypeError"

/-- iteration order of a pass that starts after `k` calls of `proc.wait`: the order in which the
    implementation was seen to visit (flat list of all its calls), completed with the rest -/
def orderOf (flat : List Nat) (k : Nat) (alive : List Nat) : List Nat :=
  let pre := ((flat.drop k).filter fun p => alive.contains p).eraseDups
  pre ++ alive.filter fun p => !(pre.contains p)

def asWPObs (j : Json) : R Spec.WPObs := do
  let gone ← listF asNat j "gone"
  let alive ← listF asNat j "alive"
  let rcs ← listF (fun e => do
      match e.getArr? with
      | .ok #[p, v] => do
        let p ← asNat p
        let v ← asOpt asVal v
        pure (p, v)
      | _ => .error "returncode entry must be [pid, null|{v}]") j "returncodes"
  let cb ← listF asNat j "cbLog"
  let ret ← ratF j "ret"
  pure { gone := gone, alive := alive, returncode := fun p => (rcs.lookup p).getD none,
         cbLog := cb, ret := ret }

/-- what the implementation's callback saw: [[pid, null | {v}, inGone], …] -/
def asSeen (j : Json) : R (List CbView) :=
  listF (fun e => do
      match e.getArr? with
      | .ok #[p, v, g] => do
        let p ← asNat p
        let v ← asOpt asVal v
        let g ← asBool g
        pure (⟨p, v, g⟩ : CbView)
      | _ => .error "cbSeen entry must be [pid, null|{v}, bool]") j "cbSeen"

def jSeen (l : List CbView) : Json :=
  jList (fun (e : CbView) => Json.arr #[jNat e.pid, jOptVal e.rc, Json.bool e.inGone]) l

def handleWProcs (j : Json) : R Json := do
  let ps ← listF asPSpec j "procs"
  let lst ← listF asNat j "list"
  let timeout ← optRatF j "timeout"
  let start ← ratF j "start"
  let hasCb ← boolF j "hasCb"
  let cbS := (← optF asStr j "cb").getD (if hasCb then "callable" else "none")
  let cb ← (if cbS == "none" then pure Cb.absent else if cbS == "callable" then pure Cb.callable
            else if cbS == "bad" then pure Cb.notCallable else .error s!"bad cb {cbS}")
  let hasCb := cb != .absent
  let flat ← listF asNat j "flat"
  let fuel ← natF j "fuel"
  let wall ← asWall j
  let dflt : Env := ⟨.neverExisted, none, fun _ => false⟩
  let envOf : Nat → Env := fun pid => match ps.find? (·.pid == pid) with
    | some p => p.env
    | none => dflt
  -- the object behind each pid, after an optional `proc.wait(0)` made just before the call
  let qOf : Nat → PopenObj := fun pid => match ps.find? (·.pid == pid) with
    | some p =>
      let q0 : PopenObj := ⟨⟨pid, none, 0, none⟩, if p.popen then p.rc0 else none⟩
      if p.prewait then
        (if p.popen then (popenWaitK cfg .kill p.env View.full cfg.stopClock cfg.checkClock wall (some 0) fuel start q0).obj
         else ⟨(procWaitK cfg .kill p.env View.full cfg.stopClock cfg.checkClock wall (some 0) fuel start q0.proc).obj, none⟩)
      else q0
    | none => ⟨⟨pid, none, 0, none⟩, none⟩
  let isPopen : Nat → Bool := fun pid => match ps.find? (·.pid == pid) with
    | some p => p.popen
    | none => false
  let objs : Nat → PObj := fun pid => (qOf pid).proc
  let sub0 : Nat → Option (Option Int) := fun pid => cond (isPopen pid) (some (qOf pid).subRc) none
  let w0 : WP := ⟨start, objs, [], [], [], [], []⟩
  let m0 : WPM := ⟨w0, sub0⟩
  let hashable := (← optF asBool j "hashable").getD true
  let oids := (← optF (asList asNat) j "oids").getD (lst.map fun _ => 0)
  let items : List Item := (lst.zip oids).map fun x => ⟨x.1, x.2⟩
  let ask : Spec.WPAsk := ⟨envOf, lst, timeout, start, hasCb⟩
  let implV ← optF asWPObs j "obs"
  let cleanOf : Nat → Bool := fun pid => match ps.find? (·.pid == pid) with
    | some p => p.clean
    | none => false
  let viewOf : Nat → View := fun pid => match ps.find? (·.pid == pid) with
    | some p => p.view
    | none => View.full
  let implObsJ ← optF pure j "obs"
  let implSeen ← (match implObsJ with
    | some oj => (asSeen oj).map some
    | none => pure none)
  let seesV (seen : List CbView) (log : List Nat) : List String :=
    if Spec.callbackSees ask seen log then [] else ["callbackSees"]
  let implV := implV.map fun ob => Spec.wpViolations ask ob cleanOf ++ seesV (implSeen.getD []) ob.cbLog ++
    Spec.wpViewViolations ask viewOf ob
  let refusal := Spec.wpRefusalM timeout hashable (cb != .absent) (cb == .callable)
  let specJ (mV : List String) : Json :=
    jObj [("model_violations", jStrs mV), ("impl_violations", jOpt jStrs implV), ("refusal", jRefusal refusal)]
  match waitProcsFrontK cfg envOf wall lst hashable timeout cb (orderOf flat) fuel m0 with
  | .error o =>
    return jObj [("model", jObj [("kind", "raised"), ("out", jWPErr o)]),
                 ("spec", specJ [])]
  | .ok (m, alive) =>
    let w := m.w
    let pids := dedup lst
    let mobs : Spec.WPObs := ⟨w.gone, alive, fun p => (w.objs p).returncode, w.cbLog, w.now⟩
    return jObj [
      ("model", jObj [("kind", "ok"), ("gone", jList jNat w.gone), ("alive", jList jNat alive),
        ("returncodes", jList (fun p => Json.arr #[jNat p, jOptVal (w.objs p).returncode]) pids),
        ("cbLog", jList jNat w.cbLog), ("cbSeen", jSeen w.cbSeen), ("ret", jRat w.now), ("sleeps", jList jRat w.sleeps),
        ("calls", jList (fun c => Json.arr #[jNat c.1, jRat c.2]) w.calls),
        ("subs", jList (fun p => Json.arr #[jNat p, jOptVal (m.sub p)]) (pids.filter isPopen)),
        ("survivors", jList (fun (x : Item) => Json.arr #[jNat x.pid, jNat x.oid]) (setOf items))]),
      ("spec", specJ (Spec.wpViolations ask mobs cleanOf ++ seesV w.cbSeen w.cbLog ++ Spec.wpViewViolations ask viewOf mobs))]

def handle (_ : Unit) (j : Json) : R (Unit × Json) := do
  let op ← strF j "op"
  if op == "cfg" then
    return ((), jObj [("i0", jRat cfg.i0), ("factor", jNat cfg.factor), ("cap", jRat cfg.cap),
      ("checkBeforeSleep", Json.bool cfg.checkBeforeSleep), ("deadlineGe", Json.bool cfg.deadlineGe),
      ("validateNonNeg", Json.bool cfg.validateNonNeg), ("sliceN", jNat cfg.sliceN),
      ("pidCheck", Json.bool cfg.pidCheck), ("cbCheck", Json.bool cfg.cbCheck),
      ("popenRcFirst", Json.bool cfg.popenRcFirst), ("popenStoresRc", Json.bool cfg.popenStoresRc),
      ("popenValidateFirst", Json.bool cfg.popenValidateFirst),
      ("pidRejectsZero", Json.bool cfg.pidRejectsZero), ("pidRejectsNeg", Json.bool cfg.pidRejectsNeg),
      ("pidRejectsPos", Json.bool cfg.pidRejectsPos), ("flagsTimeout", jNat cfg.flagsTimeout),
      ("flagsBlocking", jNat cfg.flagsBlocking), ("rcBeforeCb", Json.bool cfg.rcBeforeCb),
      ("goneBeforeCb", Json.bool cfg.goneBeforeCb),
      ("pollAsksHook", Json.bool cfg.pollAsksHook), ("hookDefaultIsKill", Json.bool cfg.hookDefaultIsKill),
      ("linuxWaitPassesNoHook", Json.bool cfg.linuxWaitPassesNoHook),
      ("probe", if cfg.probe == .kill then "kill" else "procfs"),
      ("probeDirect", if cfg.probeDirect == .kill then "kill" else "procfs"),
      ("stopClock", if cfg.stopClock == .steady then "steady" else "wall"),
      ("checkClock", if cfg.checkClock == .steady then "steady" else "wall"),
      ("procsDeadlineClock", if cfg.procsDeadlineClock == .steady then "steady" else "wall"),
      ("procsSliceClock", if cfg.procsSliceClock == .steady then "steady" else "wall")])
  else if op == "causes" then
    return ((), jList (fun c => Json.arr #[jNat c.status, jInt c.value]) Spec.allCauses)
  else if op == "decode" then
    let lo ← natF j "lo"
    let hi ← natF j "hi"
    return ((), jList (fun i => jOutcome (decode (lo + i))) (List.range (hi - lo)))
  else if op == "wait" then return ((), ← handleWait j)
  else if op == "waitc" then return ((), ← handleWaitC j)
  else if op == "pwait" then return ((), ← handlePWait j)
  else if op == "wprocs" then return ((), ← handleWProcs j)
  else if op == "popen" then return ((), ← handlePopen j)
  else .error s!"unknown op {op}"

def main : IO Unit := Proto.run () (total handle)
