import PsutilModel.Props.C10
#print axioms Psutil.C10.cfg_good
#print axioms Psutil.C10.C10_refines
#print axioms Psutil.C10.C10_empty_none
#print axioms Psutil.C10.C10_nowrap_false_raw
#print axioms Psutil.C10.C10_monotone
#print axioms Psutil.C10.C10_value_formula
#print axioms Psutil.C10.C10_reappear_fresh
#print axioms Psutil.C10.C10_cache_clear_forgets
#print axioms Psutil.C10.C10_names_independent
#print axioms Psutil.C10.C10_reappear_needs_empty_feed
