import PsutilModel.Props.C10
#print axioms Psutil.C10.cfg_good
#print axioms Psutil.C10.get_set_same
#print axioms Psutil.C10.get_set_other
#print axioms Psutil.C10.slot_good
#print axioms Psutil.C10.widthMismatch_false
#print axioms Psutil.C10.step_inv
#print axioms Psutil.C10.runAll_inv
#print axioms Psutil.C10.init_inv
#print axioms Psutil.C10.C10_refines
#print axioms Psutil.C10.C10_empty_none
#print axioms Psutil.C10.C10_nowrap_false_raw
#print axioms Psutil.C10.C10_monotone
#print axioms Psutil.C10.C10_value_formula
#print axioms Psutil.C10.C10_reappear_fresh
#print axioms Psutil.C10.C10_cache_clear_forgets
#print axioms Psutil.C10.C10_names_independent
#print axioms Psutil.C10.C10_reappear_needs_empty_feed
