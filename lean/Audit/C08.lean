import PsutilModel.Props.C08
#print axioms Psutil.C08.cfg_good
