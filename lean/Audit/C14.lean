import PsutilModel.Props.C14
#print axioms Psutil.C14.cfg_good_mode
#print axioms Psutil.C14.C14_mode_table
#print axioms Psutil.C14.C14_mode_total
