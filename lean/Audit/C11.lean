import PsutilModel.Props.C11
#print axioms Psutil.C11.C11_placeholder
