import PsutilModel.Props.C12
#print axioms Psutil.C12.placeholder
