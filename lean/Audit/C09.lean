import PsutilModel.Props.C09
#print axioms Psutil.C09.stub_sector
