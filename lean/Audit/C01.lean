import PsutilModel.Props.C01
#print axioms Psutil.C01.cfg_good
#print axioms Psutil.C01.C01_all_guarded
#print axioms Psutil.C01.signalMap_correct
#print axioms Psutil.C01.C01_no_wrong_owner
#print axioms Psutil.C01.C01_never_group
#print axioms Psutil.C01.C01_init_rejects_negative
#print axioms Psutil.C01.C01_sendSignal_refuses_zero
#print axioms Psutil.C01.C01_exact_args
#print axioms Psutil.C01.C01_recycled_raises_NSP
#print axioms Psutil.C01.C01_live_signal_delivered
#print axioms Psutil.C01.C01_live_setter_applied
#print axioms Psutil.C01.C01_outcome_truthful
#print axioms Psutil.C01.C01_gone_counterexample
#print axioms Psutil.C01.C01_gone_counterexample_returns
#print axioms Psutil.C01.C01_bootrewrite_counterexample
#print axioms Psutil.C01.C01_unknown_start_counterexample
#print axioms Psutil.C01.C01_known_start_no_wrong_owner
