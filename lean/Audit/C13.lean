import PsutilModel.Props.C13
#print axioms Psutil.C13.regex_facts
