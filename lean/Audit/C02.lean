import PsutilModel.Props.C02
#print axioms Psutil.C02.cfg_good
#print axioms Psutil.C02.C02_ghost_meaning
#print axioms Psutil.C02.C02_eq_iff_same_incarnation
#print axioms Psutil.C02.C02_hash_congr
#print axioms Psutil.C02.C02_isRunning_iff_listed
#print axioms Psutil.C02.C02_zombie_still_listed
#print axioms Psutil.C02.C02_isRunning_sticky
#print axioms Psutil.C02.C02_isRunning_false_forever
#print axioms Psutil.C02.C02_answers_stable
#print axioms Psutil.C02.C02_iter_keeps_objects
#print axioms Psutil.C02.C02_iter_ghost_meaning
#print axioms Psutil.C02.C02_iter_handles_valid
#print axioms Psutil.C02.C02_oneshot_identity
#print axioms Psutil.C02.C02_status_terminated_sound
#print axioms Psutil.C02.C02_status_listed
#print axioms Psutil.C02.C02_status_stale_counterexample
#print axioms Psutil.C02.C02_bootrewrite_counterexample
