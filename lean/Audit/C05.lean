import PsutilModel.Props.C05
#print axioms Psutil.C05.cfg_good
