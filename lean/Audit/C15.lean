import PsutilModel.Props.C15
#print axioms Psutil.C15.cfg_good
