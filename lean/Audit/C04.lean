import PsutilModel.Props.C04
#print axioms Psutil.C04.cfg_good
