import PsutilModel.Props.C04
#print axioms Psutil.C04.cfg_good
#print axioms Psutil.C04.C04_listing_exact
#print axioms Psutil.C04.C04_pids_sorted_exact
#print axioms Psutil.C04.C04_pids_unique
#print axioms Psutil.C04.C04_pids_sets_lowest
#print axioms Psutil.C04.C04_pidExists_iff
#print axioms Psutil.C04.C04_pidExists_overflow_counterexample
#print axioms Psutil.C04.yieldsOf_cons
#print axioms Psutil.C04.C04_iter_ascending
#print axioms Psutil.C04.C04_overlap_safety
#print axioms Psutil.C04.C04_yield_was_listed
#print axioms Psutil.C04.C04_iter_each_listed_once
#print axioms Psutil.C04.C04_L19_counterexample
#print axioms Psutil.C04.C04_identity_overlap_counterexample
#print axioms Psutil.C04.C04_overlap_later_yields_second
#print axioms Psutil.C04.C04_clear_while_suspended_counterexample
#print axioms Psutil.C04.C04_reuse_check_skips_pid_counterexample
