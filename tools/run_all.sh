#!/bin/sh
# usage: tools/run_all.sh [quick|thorough] [jobs]   — runs every claimed check, prints one line per property
TIER="${1:-quick}"; JOBS="${2:-4}"
cd "$(dirname "$0")/.." || exit 2
grep -v '^#' tools/claimed.txt | grep . | xargs -P "$JOBS" -I{} sh -c \
  'out=$(timeout 3600 ./check {} --tier '"$TIER"' 2>&1); rc=$?; echo "{} rc=$rc $(echo "$out" | tail -1)"' | sort
