#!/bin/sh
# usage: tools/apply_fix.sh <name>   — applies fixes/<name>.diff to /repo and commits it with fixes/<name>.msg
set -e
N="$1"
cd /repo
git apply --check "/verif/fixes/$N.diff"
git apply "/verif/fixes/$N.diff"
git add -A psutil docs 2>/dev/null || git add -A psutil
git commit -q -F "/verif/fixes/$N.msg"
echo "$N -> $(git rev-parse --short HEAD)"
