#!/usr/bin/env python3
"""Regenerate MANIFEST.json from the property modules under harness/props (each exports MANIFEST = {...})."""
import importlib
import json
import os
import sys

here = os.path.dirname(os.path.dirname(os.path.abspath(__file__)))
sys.path.insert(0, here)

props = []
with open(os.path.join(here, "properties.jsonl")) as f:
    for line in f:
        if line.strip():
            props.append(json.loads(line))

BASELINE = json.load(open("/root/.vp/BASELINE.json")) if os.path.exists("/root/.vp/BASELINE.json") else {}
baseline_cmd = BASELINE.get("cmd", "cd /repo && /venv/bin/python -m pytest -ra -q -p no:cacheprovider --timeout=900 --continue-on-collection-errors --junitxml=<file>")

PLANNED = {}
pl = os.path.join(here, "tools", "planned.json")
if os.path.exists(pl):
    PLANNED = json.load(open(pl))

CLAIMED = {l.strip() for l in open(os.path.join(here, "tools", "claimed.txt")) if l.strip() and not l.startswith("#")}
checks, na = [], []
for p in props:
    pid = p["id"]
    path = os.path.join(here, "harness", "props", pid.lower() + ".py")
    meta = None
    if os.path.exists(path) and pid in CLAIMED:
        mod = importlib.import_module("harness.props." + pid.lower())
        meta = getattr(mod, "MANIFEST", None)
    if meta is None:
        na.append({"property_id": pid,
                   "reason": PLANNED.get(pid, "no check registered yet: model/proof for this property is not built in the committed tree (planned, DESIGN.md section 5)")})
        continue
    checks.append({
        "property_id": pid,
        "quick_cmd": "./check %s --tier quick" % pid,
        "thorough_cmd": "./check %s --tier thorough" % pid,
        "evidence_file": "evidence/%s.json" % pid,
        "replay_cmd_template": "./check %s --replay {path}" % pid,
        "engine": "lean-model+translator+correspondence",
        "level_claimed": {"category": "proof", "text": meta["level_text"], "design_ref": meta.get("design_ref", "DESIGN.md §5 " + pid)},
        "level_note": meta["level_note"],
        "technique": meta.get("technique", "Lean 4 theorems over a model tied to the source by a translator (regenerated facts) and a differential correspondence check"),
    })

manifest = {
    "version": 1,
    "setup_cmd": "./setup.sh",
    "hooks": {
        "guard": "PSUTIL_VERIF",
        "enable": "not needed: no hook commits exist; the harness patches the platform layer / OS calls from outside the repository",
        "baseline_off_cmd": baseline_cmd,
        "source_commits": [],
        "add_only": True,
    },
    "engines": [
        {"name": "lean-model", "path": "lean/", "serves_properties": [c["property_id"] for c in checks],
         "kind_free_text": "Lean 4.33 project: Model/ (executable transcription), Spec/ (history- or renderer-defined meaning), Props/ (property theorems), Generated/ (translator output), Driver/ (JSON line protocol)"},
        {"name": "translator", "path": "harness/common/extract.py", "serves_properties": [c["property_id"] for c in checks],
         "kind_free_text": "Python ast/regex extraction of tables, literals and guard placement from /repo's current source into lean/PsutilModel/Generated/*.lean on every run"},
        {"name": "correspondence-harness", "path": "harness/", "serves_properties": [c["property_id"] for c in checks],
         "kind_free_text": "differential check: real psutil code (snapshot of the working tree, freshly built extension) vs the Lean model's executable definitions on generated inputs/histories; failing-input search and replay"},
    ],
    "checks": checks,
    "not_applicable": na,
    "notes": "Every check: snapshot /repo's working tree -> translate facts -> lake build Props/<id> + #print axioms audit -> differential correspondence -> decide (DESIGN.md §3.4). Exit 2 = infrastructure failure. known_findings.json lists recorded/fixed findings.",
}
with open(os.path.join(here, "MANIFEST.json"), "w") as f:
    json.dump(manifest, f, indent=1)
    f.write("\n")
print("checks:", [c["property_id"] for c in checks])
print("not_applicable:", [n["property_id"] for n in na])
