#!/usr/bin/env python3
"""Collects seeded/<id>/meta.json + result_<tier>.json into seeded/RESULTS.md (the table DESIGN.md §12 refers to)."""
import json, os, glob
here = os.path.dirname(os.path.dirname(os.path.abspath(__file__)))
try:
    NOTES = json.load(open(os.path.join(here, "seeded", "STRENGTHENED.json")))
except Exception:
    NOTES = {}
rows = []
for d in sorted(glob.glob(os.path.join(here, "seeded", "C*-*"))):
    sid = os.path.basename(d)
    try:
        meta = json.load(open(os.path.join(d, "meta.json")))
    except Exception:
        meta = {}
    res = {}
    for tier in ("quick", "thorough"):
        p = os.path.join(d, "result_%s.json" % tier)
        if os.path.exists(p):
            res[tier] = json.load(open(p))
    rows.append((sid, meta, res))
with open(os.path.join(here, "seeded", "RESULTS.md"), "w") as f:
    f.write("# Seeded breaking changes vs. the registered checks (written by tools/seeded_results.py)\n\n")
    f.write("Each change was written by an independent sub-agent from the property text alone, confirmed (demo fails with / passes\n"
            "without the change; pinned test-suite passes with it) and then run through `./check <prop>` on /repo HEAD + the change.\n\n")
    f.write("| seed | what the change does | needs, to manifest | quick | thorough | replay | history |\n|---|---|---|---|---|---|---|\n")
    for sid, meta, res in rows:
        obsolete = os.path.exists(os.path.join(here, "seeded", sid, "OBSOLETE"))

        def cell(t):
            r = res.get(t)
            if obsolete and r:
                return "%s up to the fix that made it obsolete" % r["verdict"]
            return "–" if not r else "%s (%ss)" % (r["verdict"], r["wall_s"])
        rk = (res.get("quick") or res.get("thorough") or {}).get("replay_kind", "")
        f.write("| %s | %s | %s | %s | %s | %s | %s |\n" % (
            sid, (meta.get("summary", "") or "").replace("|", "/").replace("\n", " ")[:260],
            (meta.get("needs_to_manifest", "") or "").replace("|", "/").replace("\n", " ")[:200], cell("quick"), cell("thorough"), rk,
            (NOTES.get(sid, "caught as first run") + (" — OBSOLETE on current HEAD: " + open(os.path.join(here, "seeded", sid, "OBSOLETE")).read().split("\n")[0] if obsolete else ""))))
print("wrote seeded/RESULTS.md (%d seeds)" % len(rows))
