#!/bin/bash
# usage: tools/seeded_matrix.sh [tier] [seed-id ...]
# Runs the registered check of each seeded change (seeded/<Cxx-N>/) against a scratch worktree of /repo HEAD with the
# change applied, and records exit status + VIOLATION line in seeded/<id>/result_<tier>.json and seeded/RESULTS.md.
# Evidence/replays of these runs go to a scratch directory, never to evidence/.
TIER="${1:-quick}"; [ $# -gt 0 ] && shift
cd "$(dirname "$0")/.." || exit 2
IDS="${*:-$(ls seeded | grep -E '^C[0-9]+-[0-9]+$')}"
SCR="$(mktemp -d /var/tmp/psv-seedmx-XXXXXX)"
run_one() {
  id="$1"; prop="${id%%-*}"
  if [ -f "seeded/$id/OBSOLETE" ]; then echo "$id obsolete (see seeded/$id/OBSOLETE)"; return; fi
  wt="$SCR/wt-$id"
  git -C /repo worktree add --detach "$wt" HEAD >/dev/null 2>&1 || { echo "$id worktree-failed"; return; }
  pf="seeded/$id/patch.diff"; [ -f "seeded/$id/patch_on_current_head.diff" ] && pf="seeded/$id/patch_on_current_head.diff"
  if git -C "$wt" apply "$(pwd)/$pf" 2>/dev/null || (cd "$wt" && patch -p1 --no-backup-if-mismatch < "$OLDPWD/$pf" >/dev/null 2>&1); then
    mkdir -p "$SCR/ev-$id" "$SCR/rp-$id"
    t0=$(date +%s)
    REPO="$wt" VERIF_EVIDENCE_DIR="$SCR/ev-$id" VERIF_REPLAY_DIR="$SCR/rp-$id" timeout 3600 ./check "$prop" --tier "$TIER" > "$SCR/log-$id" 2>&1; rc=$?
    t1=$(date +%s)
    line="$(grep -E '^VIOLATION|^OK property|INFRA' "$SCR/log-$id" | head -1)"
    rp="$(ls "$SCR/rp-$id" 2>/dev/null | head -1)"
    python3 - "$id" "$TIER" "$rc" "$line" "$((t1-t0))" "$SCR/rp-$id/$rp" <<'PY'
import json, sys, os
id_, tier, rc, line, wall, rp = sys.argv[1:7]
rec = {"seed": id_, "tier": tier, "exit": int(rc), "line": line, "wall_s": int(wall),
       "verdict": "caught" if rc == "1" else ("MISSED" if rc == "0" else "infra(%s)" % rc)}
if os.path.isfile(rp):
    try:
        r = json.load(open(rp))
        rec["replay_kind"] = r.get("kind"); rec["replay_broken"] = r.get("broken")
        rec["replay_input_excerpt"] = json.dumps(r.get("input"))[:400]
    except Exception as e:
        rec["replay_error"] = str(e)
json.dump(rec, open("seeded/%s/result_%s.json" % (id_, tier), "w"), indent=1)
print("%s %s rc=%s %s" % (id_, rec["verdict"], rc, rec.get("replay_kind", "")))
PY
  else
    echo "$id patch-does-not-apply"
  fi
  git -C /repo worktree remove --force "$wt" 2>/dev/null
}
# one run per property at a time (Generated/<Cxx>.lean is shared), different properties in parallel
for prop in $(for i in $IDS; do echo "${i%%-*}"; done | sort -u); do
  ( for id in $IDS; do [ "${id%%-*}" = "$prop" ] && run_one "$id"; done ) &
  # at most 4 properties at once
  while [ "$(jobs -r | wc -l)" -ge 4 ]; do sleep 2; done
done
wait
rm -rf "$SCR"; git -C /repo worktree prune
python3 tools/seeded_results.py
