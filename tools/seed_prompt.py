#!/usr/bin/env python3
"""usage: seed_prompt.py Cxx N  -> creates worktree /tmp/seed-Cxx-N of /repo HEAD and prints the adversary prompt"""
import json, os, subprocess, sys
pid, n = sys.argv[1], sys.argv[2]
here = os.path.dirname(os.path.dirname(os.path.abspath(__file__)))
prop = [json.loads(l) for l in open(os.path.join(here, "properties.jsonl")) if l.strip() and json.loads(l)["id"] == pid][0]
wt = "/tmp/seed-%s-%s" % (pid, n)
out = "/tmp/seed-out/%s-%s" % (pid, n)
if not os.path.isdir(wt):
    subprocess.run(["git", "-C", "/repo", "worktree", "add", "--detach", wt, "HEAD"], check=True, stdout=subprocess.DEVNULL, stderr=subprocess.DEVNULL)
os.makedirs("/tmp/seed-out", exist_ok=True)
t = open(os.path.join(here, "tools", "seed_brief.md")).read()
for k, v in {"{WT}": wt, "{OUT}": out, "{ID}": pid, "{TITLE}": prop["title"], "{STATEMENT}": prop["statement"], "{QUANT}": prop["quantifier"]["text"]}.items():
    t = t.replace(k, v)
hint = sys.argv[3] if len(sys.argv) > 3 else ""
if hint:
    t += "\nAdditional steer for this attempt: " + hint + "\n"
print(t)
