#!/usr/bin/env python3
"""known_findings.json := union of findings/*.json fragments (one per property), written atomically.
Each fragment: {"findings": [{"id","property","status":"known","what","witness",...}], "fixed": ["fixed: property=Cxx <commit> <what>"]}"""
import glob, json, os
here = os.path.dirname(os.path.dirname(os.path.abspath(__file__)))
out = {"findings": [], "fixed": []}
for p in sorted(glob.glob(os.path.join(here, "findings", "*.json"))):
    d = json.load(open(p))
    out["findings"] += d.get("findings", [])
    out["fixed"] += d.get("fixed", [])
tmp = os.path.join(here, "known_findings.json.tmp%d" % os.getpid())
json.dump(out, open(tmp, "w"), indent=1)
os.replace(tmp, os.path.join(here, "known_findings.json"))
print(len(out["findings"]), "known,", len(out["fixed"]), "fixed")
