#!/usr/bin/env python3
"""Prints a markdown table of what exists per property right now (theorems, facts, model/spec/proof lines, findings, seeds).
Used to refresh DESIGN.md §13 / notes/ASBUILT.md; reads only files under /verif."""
import glob, json, os, re
V = os.path.dirname(os.path.dirname(os.path.abspath(__file__)))
def lines(pats):
    n = 0
    for p in pats:
        for f in glob.glob(os.path.join(V, p)):
            n += sum(1 for _ in open(f, errors="replace"))
    return n
kf = json.load(open(os.path.join(V, "known_findings.json")))
rows = []
tot = dict(th=0, facts=0, model=0, spec=0, proofs=0, props=0, harness=0, seeds=0)
for i in range(1, 21):
    p = "C%02d" % i
    props = open(os.path.join(V, "lean/PsutilModel/Props/%s.lean" % p), errors="replace").read()
    th = len(re.findall(r"^theorem ", props, re.M))
    ex = len(re.findall(r"^example ", props, re.M))
    full = len(re.findall(r"^def \w+_Full", props, re.M))
    gen = open(os.path.join(V, "lean/PsutilModel/Generated/%s.lean" % p), errors="replace").read()
    facts = len(re.findall(r"^def ", gen, re.M))
    model = lines(["lean/PsutilModel/Model/%s*.lean" % p]); spec = lines(["lean/PsutilModel/Spec/%s*.lean" % p])
    proofs = lines(["lean/PsutilModel/Proofs/%s*.lean" % p]); pl = lines(["lean/PsutilModel/Props/%s.lean" % p])
    har = lines(["harness/props/%s*.py" % p.lower()])
    known = [f["id"] for f in kf["findings"] if f["property"] == p]
    fixed = [l for l in kf["fixed"] if ("property=%s " % p) in l]
    seeds = sorted(glob.glob(os.path.join(V, "seeded/%s-*" % p)))
    verd = []
    for s in seeds:
        if os.path.exists(os.path.join(s, "OBSOLETE")):
            verd.append("obs"); continue
        try:
            r = json.load(open(os.path.join(s, "result_quick.json")))
            verd.append("cex" if r.get("replay_kind") == "counterexample" else ("nfi" if r.get("verdict") == "caught" else "MISS"))
        except Exception:
            verd.append("?")
    ev = {}
    try:
        ev = json.load(open(os.path.join(V, "evidence/%s.json" % p)))
    except Exception:
        pass
    rows.append((p, th, ex, full, facts, model, spec, proofs, pl, har, len(known), len(fixed), len(seeds), " ".join(verd)))
    for k, v in zip(("th", "facts", "model", "spec", "proofs", "props", "harness", "seeds"), (th, facts, model, spec, proofs, pl, har, len(seeds))):
        tot[k] += v
print("| id | theorems (Props) | examples | _Full defs | translator facts | Model lines | Spec lines | Proofs lines | Props lines | harness lines | open findings | fixed | seeds | seed verdicts (quick; cex = concrete counterexample, nfi = no-failing-input-found, obs = obsolete) |")
print("|---|---|---|---|---|---|---|---|---|---|---|---|---|---|")
for r in rows:
    print("| " + " | ".join(str(x) for x in r) + " |")
print("| total | %(th)d | | | %(facts)d | %(model)d | %(spec)d | %(proofs)d | %(props)d | %(harness)d | %%d | %%d | %(seeds)d | |" % tot % (len(kf["findings"]), len(kf["fixed"])))
