#!/bin/sh
# usage: tools/land_fix.sh <fix-name> [<already-committed-hash>]
# Applies fixes/<name>.diff to /repo as a "fix:" commit (unless a hash is given) and replaces the pending
# marker of that fix in findings/*.json by the commit id.
set -e
N="$1"; H="${2:-}"
cd "$(dirname "$0")/.."
if [ -z "$H" ]; then
  out=$(tools/apply_fix.sh "$N"); echo "$out"; H=$(echo "$out" | sed 's/.*-> //')
fi
python3 - "$N" "$H" <<'PY'
import glob, re, sys
n, h = sys.argv[1], sys.argv[2]
pat = re.compile(r"(?i)(PENDING\(fixes/%s\.diff\)|<pending: fixes/%s\.diff>|PENDING\(%s\)|<pending:? ?%s>|<commit:%s>)" % ((re.escape(n),) * 5))
hit = 0
for p in glob.glob("findings/*.json"):
    s = open(p).read()
    s2, k = pat.subn(h, s)
    if k:
        open(p, "w").write(s2); hit += k
print("markers replaced:", hit)
PY
python3 tools/merge_findings.py
echo "REMINDER: run tools/run_all.sh quick now — a landed fix can change translator facts / behaviour that OTHER properties model (29257b1 for C02 turned C06 red until its model followed)."
