#!/bin/sh
# usage: tools/confirm_seed.sh Cxx-N [check-id ...]
# Confirms an independently written breaking change (in /tmp/seed-Cxx-N, deliverables in /tmp/seed-out/Cxx-N):
#   demo fails with the change / passes without, the pinned test-suite still passes with it, and records
#   whether our check(s) catch it. Keeps it as /verif/seeded/Cxx-N/ and removes the scratch worktree.
set -u
SEED="$1"; shift
PROP="${SEED%%-*}"
CHECKS="${*:-$PROP}"
WT="/tmp/seed-$SEED"; OUT="/tmp/seed-out/$SEED"
cd "$(dirname "$0")/.." || exit 2
[ -f "$OUT/patch.diff" ] && [ -f "$OUT/demo.py" ] || { echo "missing deliverables in $OUT"; exit 2; }
[ -d "$WT" ] || git -C /repo worktree add --detach "$WT" HEAD >/dev/null 2>&1 || { echo "cannot create $WT"; exit 2; }
git -C "$WT" checkout -q -- . && git -C "$WT" apply "$OUT/patch.diff" || { echo "patch does not apply"; exit 2; }
(cd "$WT" && /venv/bin/python setup.py build_ext --inplace >/dev/null 2>&1) || { echo "build failed"; exit 2; }
timeout 300 /venv/bin/python "$OUT/demo.py" "$WT" >"$OUT/demo_changed.log" 2>&1; rc_changed=$?
git -C "$WT" apply -R "$OUT/patch.diff"
(cd "$WT" && /venv/bin/python setup.py build_ext --inplace >/dev/null 2>&1)
timeout 300 /venv/bin/python "$OUT/demo.py" "$WT" >"$OUT/demo_pristine.log" 2>&1; rc_pristine=$?
git -C "$WT" apply "$OUT/patch.diff"
(cd "$WT" && /venv/bin/python setup.py build_ext --inplace >/dev/null 2>&1)
echo "demo: changed rc=$rc_changed pristine rc=$rc_pristine"
tools/run_baseline.sh "$WT" > "$OUT/baseline.log" 2>&1; rc_base=$?
tail -3 "$OUT/baseline.log"
caught=""
# run our checks against the CURRENT /repo HEAD (which may hold later "fix:" commits) + the seeded patch
CWT="/tmp/seedchk-$SEED"
git -C /repo worktree remove --force "$CWT" 2>/dev/null
git -C /repo worktree add --detach "$CWT" HEAD >/dev/null 2>&1
if git -C "$CWT" apply "$OUT/patch.diff" 2>/dev/null || (cd "$CWT" && patch -p1 --no-backup-if-mismatch < "$OUT/patch.diff" >/dev/null 2>&1); then
  for c in $CHECKS; do
    mkdir -p "$OUT/ev" "$OUT/rp"
    REPO="$CWT" VERIF_EVIDENCE_DIR="$OUT/ev" VERIF_REPLAY_DIR="$OUT/rp" timeout 1800 ./check "$c" --tier quick > "$OUT/check_$c.log" 2>&1; rc=$?
    echo "check $c rc=$rc: $(grep -E 'VIOLATION|OK property|INFRA' "$OUT/check_$c.log" | head -2 | tr '\n' ' ')"
    caught="$caught $c:$rc"
  done
else
  echo "patch does not apply to current HEAD"; caught="apply:failed"
fi
git -C /repo worktree remove --force "$CWT" 2>/dev/null
if [ "$rc_changed" = 1 ] && [ "$rc_pristine" = 0 ] && [ "$rc_base" = 0 ]; then
  mkdir -p "seeded/$SEED"
  cp "$OUT/patch.diff" "$OUT/demo.py" "seeded/$SEED/"
  python3 - "$OUT/meta.json" "seeded/$SEED/meta.json" "$caught" <<'PY'
import json, sys
try:
    m = json.load(open(sys.argv[1]))
except Exception as e:
    m = {"meta_error": str(e)}
m["confirmed"] = {"demo_fails_with_change": True, "demo_passes_without": True, "pinned_test_suite_passes_with_change": True,
                  "how": "tools/confirm_seed.sh: build, demo.py on changed/pristine worktree, tools/run_baseline.sh on the changed worktree"}
m["checks_run"] = {kv.split(":")[0]: ("caught (exit 1)" if kv.split(":")[1] == "1" else "MISSED (exit %s)" % kv.split(":")[1]) for kv in sys.argv[3].split()}
json.dump(m, open(sys.argv[2], "w"), indent=1)
PY
  echo "kept as seeded/$SEED ($caught)"
else
  echo "NOT CONFIRMED (demo changed=$rc_changed pristine=$rc_pristine baseline=$rc_base)"
fi
git -C /repo worktree remove --force "$WT" 2>/dev/null
