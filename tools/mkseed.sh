#!/bin/sh
# usage: mkseed.sh Cxx  -> writes /tmp/prompts/seed7/Cxx-N.txt and prints Cxx-N
p=$1; cd /verif; mkdir -p /tmp/prompts/seed7
n=$(( $(ls -d seeded/$p-* | wc -l) + 1 ))
hint=$(python3 - $p <<'E'
import json,glob,sys
p=sys.argv[1]
out=[]
for m in sorted(glob.glob('/verif/seeded/%s-*/meta.json'%p)):
    d=json.load(open(m)); out.append('- '+(d.get('summary') or '')[:260].replace('\n',' '))
print("Earlier adversaries already tried the following changes; yours must be DIFFERENT IN KIND and should touch a different function / code path / clause of the property than these (prefer a clause of the statement nobody has attacked yet, a helper-level site (e.g. psutil/_common.py, psutil/_psposix.py, psutil/arch/linux/*.c), a two-site change where each site looks fine alone, or a concurrency/ordering/fault-timing trigger):\n"+'\n'.join(out))
E
)
python3 tools/seed_prompt.py $p $n "$hint" > /tmp/prompts/seed7/$p-$n.txt; echo $p-$n
