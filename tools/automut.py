#!/usr/bin/env python3
"""Automatic mutation sweep: how tightly is each property's check tied to the code it is anchored in?

usage: tools/automut.py [--per-prop K] [--seed N] [--jobs J] [--tier quick] [--baseline-missed] [Cxx ...]

For every property the anchors of /verif/properties.jsonl (file:line ranges at the pinned commit) are mapped to the
FUNCTIONS that contain them (qualified names at the pinned commit, looked up again at /repo HEAD, so that line drift
caused by later `fix:` commits does not matter). Inside those functions token-level mutants are generated
(comparison flips, and/or, not-deletion, True/False, min/max, find/rfind, integer +1, deletion of a single-line
call statement), K of them are sampled per property (PRNG seeded), each is applied to a scratch worktree of /repo
HEAD and the property's registered check is run against it (REPO=<worktree>, evidence/replays to a scratch dir).
A mutant is *killed* when the check exits 1. Survivors are listed in seeded/automut/<prop>.json for manual triage
(equivalent mutant / outside what the property speaks about / blind spot of the check); with --baseline-missed the
pinned test-suite is also run on each survivor (a survivor that the test-suite kills too is not "realistic").

This is a measuring tool for the builders, not part of any registered check.
"""
import argparse
import ast
import io
import json
import os
import random
import re
import shutil
import subprocess
import sys
import tempfile
import tokenize
from concurrent.futures import ThreadPoolExecutor

HERE = os.path.dirname(os.path.dirname(os.path.abspath(__file__)))
REPO = "/repo"
OUTDIR = os.path.join(HERE, "seeded", "automut")


def sh(*a, **kw):
    return subprocess.run(list(a), capture_output=True, text=True, **kw)


def base_commit():
    return sh("git", "-C", REPO, "rev-list", "--max-parents=0", "HEAD").stdout.split()[0]


def anchors(prop):
    blob = json.dumps(prop["anchors"])
    out = {}
    for f, ranges in re.findall(r'(psutil/[\w/\.]+\.py):([\d,\-\s]+)', blob):
        for r in ranges.replace(" ", "").split(","):
            if not r:
                continue
            a, _, b = r.partition("-")
            out.setdefault(f, []).append((int(a), int(b or a)))
    return out


def functions(src):
    """qualified name -> (first line, last line) for every def in `src`"""
    tree = ast.parse(src)
    res = {}

    def walk(node, prefix):
        for ch in ast.iter_child_nodes(node):
            if isinstance(ch, (ast.FunctionDef, ast.AsyncFunctionDef, ast.ClassDef)):
                q = prefix + ch.name
                if not isinstance(ch, ast.ClassDef):
                    res[q] = (ch.lineno, ch.end_lineno)
                walk(ch, q + ".")
            else:
                walk(ch, prefix)
    walk(tree, "")
    return res


def anchored_functions(prop, base):
    """{file: set(qualnames)} of the innermost functions containing an anchored line at the pinned commit"""
    res = {}
    for f, ranges in anchors(prop).items():
        src = sh("git", "-C", REPO, "show", "%s:%s" % (base, f)).stdout
        if not src:
            continue
        fns = functions(src)
        for (a, b) in ranges:
            for ln in range(a, b + 1):
                best = None
                for q, (lo, hi) in fns.items():
                    if lo <= ln <= hi and (best is None or fns[best][1] - fns[best][0] > hi - lo):
                        best = q
                if best:
                    res.setdefault(f, set()).add(best)
    return res


FLIP = {"<": "<=", "<=": "<", ">": ">=", ">=": ">", "==": "!=", "!=": "=="}
NAMES = {"and": "or", "or": "and", "True": "False", "False": "True", "min": "max", "max": "min",
         "rfind": "find", "find": "rfind", "startswith": "endswith"}


def mutants_of(src, spans):
    """token-level mutants inside the line spans: list of dicts(line, col, end, before, after, op)"""
    muts = []
    lines = src.split("\n")
    inspan = lambda ln: any(lo <= ln <= hi for lo, hi in spans)
    toks = list(tokenize.generate_tokens(io.StringIO(src).readline))
    depth_fstring = 0
    for i, t in enumerate(toks):
        (sl, sc), (el, ec) = t.start, t.end
        if sl != el or not inspan(sl):
            continue
        if t.type == tokenize.OP and t.string in FLIP:
            muts.append(dict(line=sl, col=sc, end=ec, before=t.string, after=FLIP[t.string], op="cmp"))
        elif t.type == tokenize.NAME and t.string in NAMES:
            # `find`/`rfind`/`startswith` only as attribute calls
            if t.string in ("rfind", "find", "startswith", "min", "max"):
                nxt = toks[i + 1].string if i + 1 < len(toks) else ""
                if nxt != "(":
                    continue
            muts.append(dict(line=sl, col=sc, end=ec, before=t.string, after=NAMES[t.string], op="name"))
        elif t.type == tokenize.NAME and t.string == "not":
            nxt = toks[i + 1].string if i + 1 < len(toks) else ""
            prev = toks[i - 1].string if i else ""
            if nxt != "in" and prev != "is":
                muts.append(dict(line=sl, col=sc, end=ec + 1, before="not ", after="", op="not-del"))
        elif t.type == tokenize.NUMBER and re.fullmatch(r"\d+", t.string) and len(t.string) <= 4:
            muts.append(dict(line=sl, col=sc, end=ec, before=t.string, after=str(int(t.string) + 1), op="int+1"))
    # deletion of single-line call statements
    tree = ast.parse(src)
    for node in ast.walk(tree):
        if isinstance(node, ast.Expr) and isinstance(node.value, ast.Call) and node.lineno == node.end_lineno \
                and inspan(node.lineno):
            text = lines[node.lineno - 1]
            fn = ast.unparse(node.value.func)
            if fn.split(".")[-1] in ("debug", "warn", "print", "append", "add"):
                continue
            ind = len(text) - len(text.lstrip())
            muts.append(dict(line=node.lineno, col=ind, end=len(text), before=text[ind:], after="pass", op="del-call"))
    return muts


def apply_mut(src, m):
    lines = src.split("\n")
    l = lines[m["line"] - 1]
    if l[m["col"]:m["end"]] != m["before"]:
        return None
    lines[m["line"] - 1] = l[:m["col"]] + m["after"] + l[m["end"]:]
    out = "\n".join(lines)
    try:
        compile(out, "<mut>", "exec")
    except SyntaxError:
        return None
    return out


def run_mutant(prop_id, f, m, tier, baseline_missed, idx):
    scr = tempfile.mkdtemp(prefix="psv-automut-%s-" % prop_id, dir="/var/tmp")
    wt = os.path.join(scr, "wt")
    rec = dict(m, file=f)
    try:
        r = sh("git", "-C", REPO, "worktree", "add", "--detach", wt, "HEAD")
        if r.returncode:
            rec["verdict"] = "infra(worktree)"
            return rec
        path = os.path.join(wt, f)
        src = open(path, encoding="utf-8").read()
        new = apply_mut(src, m)
        if new is None:
            rec["verdict"] = "skipped(does not apply)"
            return rec
        open(path, "w", encoding="utf-8").write(new)
        env = dict(os.environ, REPO=wt, VERIF_EVIDENCE_DIR=os.path.join(scr, "ev"), VERIF_REPLAY_DIR=os.path.join(scr, "rp"))
        os.makedirs(env["VERIF_EVIDENCE_DIR"])
        os.makedirs(env["VERIF_REPLAY_DIR"])
        try:
            r = subprocess.run([os.path.join(HERE, "check"), prop_id, "--tier", tier], capture_output=True, text=True,
                               env=env, timeout=1800, cwd=HERE)
            rc = r.returncode
            line = [l for l in r.stdout.split("\n") if l.startswith(("VIOLATION", "OK property"))][:1]
            rec["line"] = rec.get("line")
            rec["check_line"] = (line or [(r.stderr or "").strip().split("\n")[-1][:200]])[0]
        except subprocess.TimeoutExpired:
            rc = 124
        rec["exit"] = rc
        rec["verdict"] = "killed" if rc == 1 else ("SURVIVED" if rc == 0 else "infra(%d)" % rc)
        rps = os.listdir(env["VERIF_REPLAY_DIR"])
        if rps:
            try:
                rp = json.load(open(os.path.join(env["VERIF_REPLAY_DIR"], rps[0])))
                rec["replay_kind"] = rp.get("kind")
                rec["broken"] = rp.get("broken")
            except Exception:
                pass
        if rc == 0 and baseline_missed:
            sh("/venv/bin/python", "setup.py", "build_ext", "--inplace", cwd=wt)
            b = sh(os.path.join(HERE, "tools", "run_baseline.sh"), wt)
            rec["test_suite"] = "passes" if b.returncode == 0 else "FAILS: " + " ".join(
                l.strip() for l in b.stdout.split("\n") if "NOT PASSING" in l)[:300]
        return rec
    finally:
        sh("git", "-C", REPO, "worktree", "remove", "--force", wt)
        shutil.rmtree(scr, ignore_errors=True)


LINUX_FILES = ["psutil/__init__.py", "psutil/_common.py", "psutil/_pslinux.py", "psutil/_psposix.py"]


def callees(anch):
    """one level of helpers: functions/methods defined in psutil's Linux-side Python files that the anchored
    functions call by name (module-level functions, methods of the same class via self.x(), _common.x, _psposix.x …)"""
    srcs = {f: sh("git", "-C", REPO, "show", "HEAD:%s" % f).stdout for f in LINUX_FILES}
    defs = {f: functions(srcs[f]) for f in LINUX_FILES}
    by_short = {}
    for f, fns in defs.items():
        for q in fns:
            by_short.setdefault(q.split(".")[-1], []).append((f, q))
    out = {}
    for f, quals in anch.items():
        if f not in srcs:
            continue
        tree = ast.parse(srcs[f])
        spans = [defs[f][q] for q in quals if q in defs[f]]
        for node in ast.walk(tree):
            if isinstance(node, ast.Call) and any(lo <= node.lineno <= hi for lo, hi in spans):
                fn = node.func
                name = fn.id if isinstance(fn, ast.Name) else (fn.attr if isinstance(fn, ast.Attribute) else None)
                if name in ("add", "find", "remove", "sleep", "debug"):      # methods of builtins / logging: not helpers
                    continue
                for (f2, q2) in by_short.get(name, []):
                    if q2 not in anch.get(f2, set()) and not q2.split(".")[-1].startswith("__"):
                        out.setdefault(f2, set()).add(q2)
    return out


def sweep(prop, base, k, seed, tier, baseline_missed, with_callees=False):
    pid = prop["id"]
    rng = random.Random("%s-%d" % (pid, seed))
    cands = []
    anch = anchored_functions(prop, base)
    if with_callees:
        anch = callees(anch)                     # ONLY the helpers (the anchored functions have their own sweeps)
    for f, quals in sorted(anch.items()):
        src = sh("git", "-C", REPO, "show", "HEAD:%s" % f).stdout
        fns = functions(src)
        spans = [fns[q] for q in sorted(quals) if q in fns]
        for m in mutants_of(src, spans):
            cands.append((f, m))
    rng.shuffle(cands)
    # stratify: at most ceil(k/3) of one operator kind
    picked, per = [], {}
    for f, m in cands:
        if len(picked) >= k:
            break
        if per.get(m["op"], 0) >= max(2, (k + 2) // 3):
            continue
        per[m["op"]] = per.get(m["op"], 0) + 1
        picked.append((f, m))
    out = []
    for i, (f, m) in enumerate(picked):
        rec = run_mutant(pid, f, m, tier, baseline_missed, i)
        out.append(rec)
        print("%s %-9s %s:%d %s  %r -> %r  %s" % (pid, rec.get("verdict"), f, m["line"], m["op"], m["before"][:40], m["after"][:20],
                                                 rec.get("test_suite", "")), flush=True)
    os.makedirs(OUTDIR, exist_ok=True)
    path = os.path.join(OUTDIR, pid + ("-callees" if with_callees else "") + ".json")
    old = []
    if os.path.exists(path):
        try:
            old = json.load(open(path)).get("mutants", [])
        except Exception:
            old = []
    key = lambda r: (r["file"], r["line"], r["col"], r["before"], r["after"])
    merged = {key(r): r for r in old}
    merged.update({key(r): r for r in out})
    allm = sorted(merged.values(), key=key)
    json.dump({"property": pid, "candidates_in_anchored_functions": len(cands),
               "killed": sum(1 for r in allm if r.get("verdict") == "killed"),
               "survived": sum(1 for r in allm if r.get("verdict") == "SURVIVED"),
               "mutants": allm}, open(path, "w"), indent=1)
    return pid, out


def main():
    ap = argparse.ArgumentParser()
    ap.add_argument("--per-prop", type=int, default=8)
    ap.add_argument("--seed", type=int, default=1)
    ap.add_argument("--jobs", type=int, default=4)
    ap.add_argument("--tier", default="quick")
    ap.add_argument("--baseline-missed", action="store_true")
    ap.add_argument("--callees", action="store_true",
                    help="mutate the helpers the anchored functions call (one level) instead of the anchored functions")
    ap.add_argument("props", nargs="*")
    a = ap.parse_args()
    props = [json.loads(l) for l in open(os.path.join(HERE, "properties.jsonl")) if l.strip()]
    if a.props:
        props = [p for p in props if p["id"] in a.props]
    base = base_commit()
    with ThreadPoolExecutor(max_workers=a.jobs) as ex:
        futs = [ex.submit(sweep, p, base, a.per_prop, a.seed, a.tier, a.baseline_missed, a.callees) for p in props]
        for f in futs:
            f.result()
    sh("git", "-C", REPO, "worktree", "prune")


if __name__ == "__main__":
    main()
