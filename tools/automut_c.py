#!/usr/bin/env python3
"""Automatic mutation sweep, C level: how tightly is a property's check tied to the C code it is anchored in?

usage: tools/automut_c.py [--per-prop K] [--seed N] [--tier quick|thorough] [--list] [--compile-only]
                          [--rerun-survivors-thorough] [Cxx ...]          (default property list: C17)

C analogue of tools/automut.py. For every property the `psutil/<path>.(c|h):<ranges>` anchors of
/verif/properties.jsonl (line ranges at the pinned commit) are mapped to the C FUNCTIONS that contain them (names at
the pinned commit, looked up again at /repo HEAD, so that line drift caused by later `fix:` commits does not matter;
in headers a multi-line `#define NAME(args) \\` macro counts as a function called NAME). Inside those functions
token-level mutants are generated (comparison flips, &&/||, integer +1, sizeof(x) -> (sizeof(x) - 1), dropping a
` - 1`, deletion of a NUL-terminator store, deletion of a single-line memset/strncpy/close/... call), never inside
comments, string/char literals or preprocessor lines (except the body of an anchored macro). K mutants THAT COMPILE
are sampled per property (PRNG seeded); each is written into one persistent scratch worktree of /repo HEAD, built
with `setup.py build_ext --inplace` (compile gate, new compiler warnings are recorded), the property's registered
check is run against the worktree (REPO=<worktree>, evidence/replays to a scratch dir) and the file is restored.
A mutant is *killed* when the check exits 1. Results are merged into seeded/automut/<prop>-c.json for manual triage
(equivalent mutant / outside what the property speaks about / blind spot of the check). --list only prints the
candidates, --compile-only stops after the compile gate and writes nothing, --rerun-survivors-thorough runs every
survivor once more with --tier thorough.

This is a measuring tool for the builders, not part of any registered check.
"""
import argparse
import bisect
import json
import os
import random
import re
import shutil
import subprocess
import sys
import tempfile
import time

HERE = os.path.dirname(os.path.dirname(os.path.abspath(__file__)))
REPO = "/repo"
OUTDIR = os.path.join(HERE, "seeded", "automut")
PY = "/venv/bin/python"


def sh(*a, **kw):
    return subprocess.run(list(a), capture_output=True, text=True, **kw)


def base_commit():
    return sh("git", "-C", REPO, "rev-list", "--max-parents=0", "HEAD").stdout.split()[0]


def anchors(prop):
    blob = json.dumps(prop["anchors"])
    out = {}
    for f, ranges in re.findall(r'(psutil/[\w/\.]+\.[ch]):(\d+(?:-\d+)?(?:\s*,\s*\d+(?:-\d+)?)*)', blob):
        for r in ranges.replace(" ", "").split(","):
            if not r:
                continue
            a, _, b = r.partition("-")
            out.setdefault(f, []).append((int(a), int(b or a)))
    return out


# ---------------------------------------------------------------------------------------------------------------
# a very small C "lexer": same-length blanking, so that (line, col) of the blanked text = (line, col) of the file
# ---------------------------------------------------------------------------------------------------------------

def blank(src):
    """(nocomment, code): `src` with comments blanked / with comments, string and char literals blanked
    (same length, newlines kept)"""
    n = len(src)
    nc, code = list(src), list(src)

    def wipe(arrs, i, j):
        for k in range(i, j):
            if src[k] != "\n":
                for a in arrs:
                    a[k] = " "
    i = 0
    while i < n:
        c = src[i]
        if c == "/" and src.startswith("//", i):
            j = i
            while j < n and src[j] != "\n":
                j += 2 if (src[j] == "\\" and j + 1 < n and src[j + 1] == "\n") else 1
            wipe((nc, code), i, min(j, n))
            i = j
        elif c == "/" and src.startswith("/*", i):
            j = src.find("*/", i + 2)
            j = n if j < 0 else j + 2
            wipe((nc, code), i, j)
            i = j
        elif c in "\"'":
            j = i + 1
            while j < n and src[j] != c and src[j] != "\n":
                j += 2 if src[j] == "\\" else 1
            j = min(j + 1, n) if (j < n and src[j] == c) else min(j, n)
            wipe((code,), i, j)
            i = j
        else:
            i += 1
    return "".join(nc), "".join(code)


def pp_lines(code_lines):
    """1-based numbers of the preprocessor lines (with their backslash continuation lines)"""
    pp, cont = set(), False
    for i, l in enumerate(code_lines):
        if cont or l.lstrip().startswith("#"):
            pp.add(i + 1)
            cont = l.rstrip().endswith("\\")
        else:
            cont = False
    return pp


def ifdef_context(src):
    """line number -> innermost enclosing `#if...` directive ("" outside of any), for triage: a mutant in a branch
    that is not compiled on this platform is trivially equivalent"""
    _, code = blank(src)
    ctx, stack = {}, []
    for i, l in enumerate(code.split("\n")):
        d = re.match(r"\s*#\s*(if\w*|elif|else|endif)\b\s*(.*?)\s*\\?$", l)
        if d and d.group(1) == "endif":
            stack and stack.pop()
        elif d and d.group(1) in ("else", "elif"):
            if stack:
                stack[-1] = "#%s of %s" % ((d.group(1) + " " + d.group(2)).strip(), stack[-1].split(" of ")[-1])
        elif d:
            stack.append("#%s %s" % (d.group(1), d.group(2)))
        ctx[i + 1] = stack[-1] if stack else ""
    return ctx


KEYWORDS = {"if", "for", "while", "switch", "return", "sizeof", "else", "do", "case", "defined"}
FUNC_RE = re.compile(r"\b(\w+)\s*\([^;{}]*\)\s*\{")
MACRO_RE = re.compile(r"^\s*#\s*define\s+(\w+)\s*\(")


def functions(src, header=False):
    """name -> [(first line, last line, kind)] for every function definition in `src` (kind "func"), and, with
    header=True, for every multi-line function-like macro (kind "macro")"""
    _, code = blank(src)
    lines = code.split("\n")
    pp = pp_lines(lines)
    body = "\n".join(" " * len(l) if (i + 1) in pp else l for i, l in enumerate(lines))
    starts = [0]
    for l in lines:
        starts.append(starts[-1] + len(l) + 1)
    lineno = lambda pos: bisect.bisect_right(starts, pos)
    depth, d = [], 0
    for ch in body:
        if ch == "}":
            d = max(0, d - 1)
        depth.append(d)
        if ch == "{":
            d += 1
    res = {}
    for m in FUNC_RE.finditer(body):
        name = m.group(1)
        if depth[m.start(1)] != 0 or name in KEYWORDS or name[0].isdigit():
            continue
        j, d = m.end() - 1, 0
        while j < len(body):
            if body[j] == "{":
                d += 1
            elif body[j] == "}":
                d -= 1
                if d == 0:
                    break
            j += 1
        lo, hi = lineno(m.start(1)), lineno(min(j, len(body) - 1))
        for _ in range(2):      # return type / storage class on the preceding line(s)
            prev = lines[lo - 2].strip() if lo >= 2 else ""
            if not prev or (lo - 1) in pp or prev[-1] in ";}" or "(" in prev:
                break
            lo -= 1
        res.setdefault(name, []).append((lo, hi, "func"))
    if header:
        i = 0
        while i < len(lines):
            m = MACRO_RE.match(lines[i])
            if m and lines[i].rstrip().endswith("\\"):
                j = i
                while j < len(lines) and lines[j].rstrip().endswith("\\"):
                    j += 1
                res.setdefault(m.group(1), []).append((i + 1, min(j, len(lines) - 1) + 1, "macro"))
                i = j
            i += 1
    return res


def anchored_functions(prop, base):
    """{file: set(names)} of the functions (macros) containing an anchored line at the pinned commit"""
    res = {}
    for f, ranges in anchors(prop).items():
        src = sh("git", "-C", REPO, "show", "%s:%s" % (base, f)).stdout
        if not src:
            continue
        fns = functions(src, header=f.endswith(".h"))
        for (a, b) in ranges:
            for ln in range(a, b + 1):
                for q, spans in fns.items():
                    if any(lo <= ln <= hi for lo, hi, _ in spans):
                        res.setdefault(f, set()).add(q)
    return res


# ---------------------------------------------------------------------------------------------------------------
# mutants
# ---------------------------------------------------------------------------------------------------------------

FLIP = {"<": "<=", "<=": "<", ">": ">=", ">=": ">", "==": "!=", "!=": "=="}
LOGIC = {"&&": "||", "||": "&&"}
OPS_RE = re.compile(r"<<=|>>=|<<|>>|->|<=|>=|==|!=|&&|\|\||<|>")
INT_RE = re.compile(r"(?<![\w\.])(\d+)(?![\w\.])")
MINUS1_RE = re.compile(r"(?<!\w)([A-Za-z_]\w*|\)|\])(\s*-\s*1)(?![\w\.])")
NUL_RE = re.compile(r"^([\w\.\->\[\]\s\+\-\*\(\)]+)(?<![<>!\+\-\*])=\s*('\\0'|0)\s*(;?)\s*\\?$")
CALLS = ("memset", "PSUTIL_STRNCPY", "strncpy", "CPU_ZERO", "endutent", "setutent", "endmntent", "freeifaddrs",
         "close")
CALL_RE = re.compile(r"^(%s)\s*\(" % "|".join(CALLS))


def close_paren(s, i):
    """index of the parenthesis matching s[i] == '(' on the same line, or -1"""
    d = 0
    for j in range(i, len(s)):
        if s[j] == "(":
            d += 1
        elif s[j] == ")":
            d -= 1
            if d == 0:
                return j
    return -1


def mutants_of(src, spans):
    """token-level mutants inside the (lo, hi, kind) spans: list of dicts(line, col, end, before, after, op)"""
    muts = []
    nocomment, code = blank(src)
    olines, nlines, clines = src.split("\n"), nocomment.split("\n"), code.split("\n")
    pp = pp_lines(clines)

    def allowed(ln):
        for lo, hi, kind in spans:
            if lo <= ln <= hi and (ln not in pp or (kind == "macro" and lo < ln)):
                return True
        return False

    in_macro = lambda ln: any(kind == "macro" and lo < ln <= hi for lo, hi, kind in spans)
    for ln in range(1, len(olines) + 1):
        if not allowed(ln):
            continue
        ol, nl, cl = olines[ln - 1], nlines[ln - 1], clines[ln - 1]
        add = lambda col, end, after, op: muts.append(dict(line=ln, col=col, end=end, before=ol[col:end], after=after, op=op))
        for m in OPS_RE.finditer(cl):
            t = m.group(0)
            if t in FLIP:
                add(m.start(), m.end(), FLIP[t], "cmp")
            elif t in LOGIC:
                add(m.start(), m.end(), LOGIC[t], "logic")
        for m in INT_RE.finditer(cl):
            t = m.group(1)
            if len(t) <= 4 and (t == "0" or not t.startswith("0")):
                add(m.start(1), m.end(1), str(int(t) + 1), "int+1")
        for m in re.finditer(r"\bsizeof\s*\(", cl):
            j = close_paren(cl, m.end() - 1)
            if j > 0:
                add(m.start(), j + 1, "(" + ol[m.start():j + 1] + " - 1)", "sizeof-1")
        for m in MINUS1_RE.finditer(cl):
            if m.group(1) not in KEYWORDS:
                add(m.start(2), m.end(2), "", "minus1-drop")
        # whole-line statements: judged on the comment-free line (the '\0' must still be visible), replaced by `;`
        stmt = nl.strip()
        if not stmt or not cl.strip():
            continue
        ind = len(nl) - len(nl.lstrip())
        end = len(nl.rstrip())
        tail = "; \\" if stmt.endswith("\\") else ";"
        m = NUL_RE.match(stmt)
        if m and ("[" in m.group(1) or stmt.startswith("*")):
            if m.group(3):
                add(ind, end, tail, "del-nul")
            elif in_macro(ln):      # last line of a macro body: the `;` comes from the place of use
                add(ind, end, "(void)0" + tail[1:], "del-nul")
        m = CALL_RE.match(cl[ind:end])
        if m:
            j = close_paren(cl, ind + m.end() - 1)
            if j > 0 and re.fullmatch(r"\s*;\s*\\?", cl[j + 1:end]):
                add(ind, end, tail, "del-call")
    return muts


def apply_mut(src, m):
    lines = src.split("\n")
    l = lines[m["line"] - 1]
    if l[m["col"]:m["end"]] != m["before"]:
        return None
    lines[m["line"] - 1] = l[:m["col"]] + m["after"] + l[m["end"]:]
    return "\n".join(lines)


def candidates(prop, base, verbose=False):
    """[(file, function name, mutant)] inside the anchored functions, positions at /repo HEAD"""
    cands = []
    for f, names in sorted(anchored_functions(prop, base).items()):
        src = sh("git", "-C", REPO, "show", "HEAD:%s" % f).stdout
        fns = functions(src, header=f.endswith(".h"))
        spans = []
        for q in sorted(names):
            for sp in fns.get(q, []):
                spans.append(sp + (q,))
            if verbose:
                print("%s %s  %s  HEAD lines %s" % (prop["id"], f, q, ", ".join(
                    "%d-%d%s" % (lo, hi, " (macro)" if k == "macro" else "") for lo, hi, k in fns.get(q, []))
                    or "NOT FOUND at HEAD"))
        ctx = ifdef_context(src)
        for m in mutants_of(src, [s[:3] for s in spans]):
            q = [s[3] for s in spans if s[0] <= m["line"] <= s[1]][0]
            if ctx.get(m["line"]) and not f.endswith(".h"):
                q += " under " + ctx[m["line"]]
            cands.append((f, q, m))
    return cands


# ---------------------------------------------------------------------------------------------------------------
# one persistent worktree: build, mutate, rebuild, check, restore
# ---------------------------------------------------------------------------------------------------------------

def norm_warning(l):
    return re.sub(r":\d+:\d+:", ":", l.strip())


def build(wt, force=False):
    """(ok, output, seconds) of `setup.py build_ext --inplace` in the worktree"""
    t0 = time.time()
    cmd = ["timeout", "600", PY, "setup.py", "build_ext", "--inplace"] + (["--force"] if force else [])
    r = sh(*cmd, cwd=wt)
    out = (r.stdout or "") + (r.stderr or "")
    ok = r.returncode == 0 and not re.search(r"\berror:", out)
    return ok, out, time.time() - t0


class Tree(object):
    def __init__(self):
        self.scr = tempfile.mkdtemp(prefix="psv-automutc-", dir="/var/tmp")
        self.wt = os.path.join(self.scr, "wt")
        self.pristine_warnings = set()

    def setup(self):
        r = sh("git", "-C", REPO, "worktree", "add", "--detach", self.wt, "HEAD")
        if r.returncode:
            sys.exit("automut_c: cannot create the scratch worktree: " + r.stderr.strip())
        ok, out, secs = build(self.wt, force=True)
        if not ok:
            sys.exit("automut_c: the PRISTINE build of /repo HEAD fails, nothing can be measured:\n" + out[-2000:])
        self.pristine_warnings = {norm_warning(l) for l in out.split("\n") if "warning:" in l}
        print("# pristine build of /repo HEAD in %s: ok, %.1fs, %d warning lines" % (self.wt, secs, len(self.pristine_warnings)),
              flush=True)

    def close(self):
        sh("git", "-C", REPO, "worktree", "remove", "--force", self.wt)
        shutil.rmtree(self.scr, ignore_errors=True)
        sh("git", "-C", REPO, "worktree", "prune")

    def run_check(self, prop_id, tier):
        """(verdict, extra fields) of the registered check against the worktree as it is now"""
        extra = {}
        env = dict(os.environ, REPO=self.wt, VERIF_EVIDENCE_DIR=os.path.join(self.scr, "ev"),
                   VERIF_REPLAY_DIR=os.path.join(self.scr, "rp"))
        for d in (env["VERIF_EVIDENCE_DIR"], env["VERIF_REPLAY_DIR"]):
            shutil.rmtree(d, ignore_errors=True)
            os.makedirs(d)
        try:
            r = subprocess.run([os.path.join(HERE, "check"), prop_id, "--tier", tier], capture_output=True, text=True,
                               env=env, timeout=2400, cwd=HERE)
            rc = r.returncode
            line = [l for l in r.stdout.split("\n") if l.startswith(("VIOLATION", "OK property"))][:1]
            extra["check_line"] = (line or [(r.stderr or "").strip().split("\n")[-1][:200]])[0]
        except subprocess.TimeoutExpired:
            rc = 124
        extra["exit"] = rc
        rps = sorted(os.listdir(env["VERIF_REPLAY_DIR"]))
        if rps:
            try:
                rp = json.load(open(os.path.join(env["VERIF_REPLAY_DIR"], rps[0])))
                extra["replay_kind"] = rp.get("kind")
                extra["broken"] = rp.get("broken")
            except Exception:
                pass
        return ("killed" if rc == 1 else ("SURVIVED" if rc == 0 else "infra(%d)" % rc)), extra

    def run_mutant(self, prop_id, f, fn, m, tier, compile_only, gate=True):
        rec = dict(m, file=f, function=fn)
        path = os.path.join(self.wt, f)
        try:
            src = open(path, encoding="utf-8").read()
            new = apply_mut(src, m)
            if new is None:
                rec["verdict"] = "skipped(does not apply)"
                return rec
            open(path, "w", encoding="utf-8").write(new)
            if gate:
                # setup.py lists no header dependencies: a mutated header needs a forced rebuild
                ok, out, secs = build(self.wt, force=f.endswith(".h"))
                rec["build_seconds"] = round(secs, 1)
                if not ok:
                    rec["verdict"] = "skipped(does not compile)"
                    rec["compile_error"] = ([l.strip() for l in out.split("\n") if re.search(r"\berror:", l)] or [""])[0][:200]
                    return rec
                seen, new_w = set(), []
                for l in out.split("\n"):
                    w = norm_warning(l)
                    if "warning:" in l and w not in self.pristine_warnings and w not in seen:
                        seen.add(w)
                        new_w.append(l.strip()[:240])
                rec["new_warnings"] = new_w[:5]
            if compile_only:
                rec["verdict"] = "compiles"
                return rec
            rec["verdict"], extra = self.run_check(prop_id, tier)
            rec.update(extra)
            return rec
        finally:
            sh("git", "-C", self.wt, "checkout", "--", f)


def fmt(pid, rec, extra=""):
    return "%s %-9s %s:%d %s  %r -> %r  %s" % (pid, rec.get("verdict"), rec["file"], rec["line"], rec["op"],
                                              rec["before"][:40], rec["after"][:30], extra)


def sweep(prop, base, k, seed, tier, tree, compile_only, rerun_thorough):
    pid = prop["id"]
    rng = random.Random("%s-%d" % (pid, seed))
    cands = candidates(prop, base)
    rng.shuffle(cands)
    # stratify: at most ceil(k/3) of one operator kind among the mutants that compile; a mutant that does not
    # compile is recorded and replaced by the next candidate
    out, per, done, attempts = [], {}, 0, 0
    for f, fn, m in cands:
        if done >= k or attempts >= 3 * k:
            break
        if per.get(m["op"], 0) >= max(2, (k + 2) // 3):
            continue
        attempts += 1
        rec = tree.run_mutant(pid, f, fn, m, tier, compile_only)
        out.append(rec)
        if not rec["verdict"].startswith("skipped"):
            per[m["op"]] = per.get(m["op"], 0) + 1
            done += 1
        note = "%s  [%s, build %.1fs%s]" % (rec.get("compile_error", ""), fn, rec.get("build_seconds", 0),
                                           ", %d new warning(s)" % len(rec["new_warnings"]) if rec.get("new_warnings") else "")
        print(fmt(pid, rec, note.strip()), flush=True)
    if compile_only:
        print("# %s: %d candidates, %d compile attempts, %d compile, %d do not" % (
            pid, len(cands), attempts, done, sum(1 for r in out if r["verdict"] == "skipped(does not compile)")), flush=True)
        return pid, out
    if rerun_thorough:
        for rec in out:
            if rec.get("verdict") != "SURVIVED":
                continue
            m = {x: rec[x] for x in ("line", "col", "end", "before", "after", "op")}
            again = tree.run_mutant(pid, rec["file"], rec["function"], m, "thorough", False, gate=False)
            rec["thorough"] = again["verdict"]
            if again.get("check_line"):
                rec["thorough_check_line"] = again["check_line"]
            print(fmt(pid, rec, "thorough: " + again["verdict"]), flush=True)
    os.makedirs(OUTDIR, exist_ok=True)
    path = os.path.join(OUTDIR, pid + "-c.json")
    old = []
    if os.path.exists(path):
        try:
            old = json.load(open(path)).get("mutants", [])
        except Exception:
            old = []
    key = lambda r: (r["file"], r["line"], r["col"], r["before"], r["after"])
    merged = {key(r): r for r in old}
    merged.update({key(r): r for r in out})
    allm = sorted(merged.values(), key=key)
    json.dump({"property": pid, "candidates_in_anchored_functions": len(cands),
               "killed": sum(1 for r in allm if r.get("verdict") == "killed"),
               "survived": sum(1 for r in allm if r.get("verdict") == "SURVIVED"),
               "mutants": allm}, open(path, "w"), indent=1)
    return pid, out


def list_candidates(prop, base):
    pid = prop["id"]
    cands = candidates(prop, base, verbose=True)
    per = {}
    for f, fn, m in cands:
        per[m["op"]] = per.get(m["op"], 0) + 1
        print("%s:%d %s %r -> %r   [%s, col %d]" % (f, m["line"], m["op"], m["before"], m["after"], fn, m["col"]))
    print("%s: %d candidates in anchored functions: %s" % (
        pid, len(cands), ", ".join("%s=%d" % kv for kv in sorted(per.items()))))


def main():
    ap = argparse.ArgumentParser()
    ap.add_argument("--per-prop", type=int, default=8)
    ap.add_argument("--seed", type=int, default=1)
    ap.add_argument("--tier", default="quick", choices=("quick", "thorough"))
    ap.add_argument("--list", action="store_true")
    ap.add_argument("--compile-only", action="store_true")
    ap.add_argument("--rerun-survivors-thorough", action="store_true")
    ap.add_argument("props", nargs="*")
    a = ap.parse_args()
    want = a.props or ["C17"]
    props = [json.loads(l) for l in open(os.path.join(HERE, "properties.jsonl")) if l.strip()]
    props = [p for p in props if p["id"] in want]
    base = base_commit()
    if a.list:
        for p in props:
            list_candidates(p, base)
        return
    tree = Tree()
    try:
        tree.setup()
        for p in props:     # sequentially: one worktree, one check at a time
            sweep(p, base, a.per_prop, a.seed, a.tier, tree, a.compile_only, a.rerun_survivors_thorough)
    finally:
        tree.close()


if __name__ == "__main__":
    main()
