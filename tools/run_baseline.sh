#!/bin/sh
# Run /repo's pinned test-suite (guard off: there are no hooks) and compare with BASELINE.json's stable_pass list.
# TestFetchAllProcesses (multiprocessing.Pool over every PID) hangs in this sandbox on the pristine tree too and is not
# in stable_pass; it is deselected here so a run takes ~2 min instead of waiting for the 900 s per-test timeout.
# usage: tools/run_baseline.sh [repo_dir]
REPO_DIR="${1:-/repo}"
OUT="$(mktemp /var/tmp/psv-junit-XXXXXX.xml)"
cd "$REPO_DIR" || exit 2
/venv/bin/python -m pytest -ra -q -p no:cacheprovider --timeout=900 --continue-on-collection-errors --deselect psutil/tests/test_process_all.py::TestFetchAllProcesses --junitxml="$OUT" > "$OUT.log" 2>&1
python3 - "$OUT" <<'PY'
import json, sys, xml.etree.ElementTree as ET
base = json.load(open('/root/.vp/BASELINE.json'))
want = set(base['stable_pass'])
passed = set()
for tc in ET.parse(sys.argv[1]).getroot().iter('testcase'):
    if not any(c.tag in ('failure', 'error', 'skipped') for c in tc):
        passed.add('%s::%s' % (tc.get('classname'), tc.get('name')))
missing = sorted(want - passed)
print('stable_pass: %d, passed now: %d, missing: %d' % (len(want), len(passed & want), len(missing)))
for m in missing[:40]:
    print('  NOT PASSING:', m)
sys.exit(1 if missing else 0)
PY
rc=$?
rm -f "$OUT" "$OUT.log"
exit $rc
