#!/bin/sh
# Run /repo's pinned test-suite (guard off: there are no hooks) and compare with BASELINE.json's stable_pass list.
# TestFetchAllProcesses (multiprocessing.Pool over every PID) hangs in this sandbox on the pristine tree too and is not
# in stable_pass; it is deselected here so a run takes ~2 min instead of waiting for the 900 s per-test timeout.
# usage: tools/run_baseline.sh [repo_dir]
REPO_DIR="${1:-/repo}"
OUT="$(mktemp /var/tmp/psv-junit-XXXXXX.xml)"
cd "$REPO_DIR" || exit 2
# stdin from /dev/null and no inherited descriptors: test_unix_socketpair & co. require that the pytest process holds no
# UNIX socket of its own (a nohup'ed / tool-spawned shell may hand one down as stdin or as an extra descriptor)
CLEAN='import subprocess,sys; sys.exit(subprocess.call(sys.argv[1:], stdin=subprocess.DEVNULL, close_fds=True))'
/venv/bin/python -c "$CLEAN" /venv/bin/python -m pytest -ra -q -p no:cacheprovider --timeout=900 --continue-on-collection-errors --deselect psutil/tests/test_process_all.py::TestFetchAllProcesses --junitxml="$OUT" > "$OUT.log" 2>&1
python3 - "$OUT" <<'PY'
import json, sys, xml.etree.ElementTree as ET
base = json.load(open('/root/.vp/BASELINE.json'))
want = set(base['stable_pass'])
passed = set()
for tc in ET.parse(sys.argv[1]).getroot().iter('testcase'):
    if not any(c.tag in ('failure', 'error', 'skipped') for c in tc):
        passed.add('%s::%s' % (tc.get('classname'), tc.get('name')))
missing = sorted(want - passed)
print('stable_pass: %d, passed now: %d, missing: %d' % (len(want), len(passed & want), len(missing)))
for m in missing[:40]:
    print('  NOT PASSING:', m)
open(sys.argv[1] + '.missing', 'w').write('\n'.join(missing))
sys.exit(1 if missing else 0)
PY
rc=$?
# A few socket tests (test_unix_socketpair, test_proc_net_connections) are flaky when other test-suites run on the
# machine at the same time: re-run just the missing tests, alone, up to twice; they count only if they then pass.
if [ $rc -ne 0 ] && [ -s "$OUT.missing" ] && [ "$(wc -l < "$OUT.missing")" -le 8 ]; then
  for attempt in 1 2; do
    ids=$(python3 - "$OUT.missing" <<'PY'
import sys
for l in open(sys.argv[1]).read().split('\n'):
    if not l.strip():
        continue
    cls, name = l.rsplit('::', 1)
    parts = cls.split('.')
    # psutil.tests.test_x.Class  ->  psutil/tests/test_x.py::Class::name
    print('/'.join(parts[:-1]) + '.py::' + parts[-1] + '::' + name)
PY
)
    sleep 5
    if /venv/bin/python -c "$CLEAN" /venv/bin/python -m pytest -q -p no:cacheprovider --timeout=900 $ids > "$OUT.retry.log" 2>&1; then
      echo "  (the missing tests pass when re-run alone, attempt $attempt: flaky under parallel load)"
      rc=0; break
    fi
  done
fi
rm -f "$OUT.missing" "$OUT.retry.log"
rm -f "$OUT" "$OUT.log"
exit $rc
